//! W2: enumeration of all ordered-forest shapes with a given number of live
//! nodes, up to isomorphism.  A shape is a multiset of top-level chains; a chain
//! is a non-empty sequence of ordered trees.

use crate::model::InsKind;
use crate::ops::Op;

#[derive(Clone, Debug, PartialEq, Eq, PartialOrd, Ord)]
pub struct Tree(pub Vec<Tree>);

pub type Chain = Vec<Tree>;
pub type Shape = Vec<Chain>;

pub struct Enumerator {
    trees: Vec<Vec<Tree>>,    // by node count
    forests: Vec<Vec<Chain>>, // by node count (forests[0] = [empty])
}

impl Enumerator {
    pub fn new(max_n: usize) -> Enumerator {
        let mut e = Enumerator {
            trees: vec![Vec::new()],
            forests: vec![vec![Vec::new()]],
        };
        for n in 1..=max_n {
            // trees with n nodes: a root over a forest of n-1 nodes
            let ts: Vec<Tree> = e.forests[n - 1].iter().map(|f| Tree(f.clone())).collect();
            e.trees.push(ts);
            // forests with n nodes: first tree of size k, then a forest of n-k
            let mut fs: Vec<Chain> = Vec::new();
            for k in 1..=n {
                for t in &e.trees[k] {
                    for rest in &e.forests[n - k] {
                        let mut f = vec![t.clone()];
                        f.extend(rest.iter().cloned());
                        fs.push(f);
                    }
                }
            }
            e.forests.push(fs);
        }
        e
    }

    /// all shapes with exactly n live nodes
    pub fn shapes(&self, n: usize) -> Vec<Shape> {
        // global list of chains (size >= 1), ordered by (size, index)
        let mut all: Vec<(usize, &Chain)> = Vec::new();
        for k in 1..=n {
            for c in &self.forests[k] {
                all.push((k, c));
            }
        }
        let mut out = Vec::new();
        let mut cur: Vec<usize> = Vec::new();
        fn rec(all: &[(usize, &Chain)], min: usize, remaining: usize, cur: &mut Vec<usize>, out: &mut Vec<Shape>) {
            if remaining == 0 {
                out.push(cur.iter().map(|i| all[*i].1.clone()).collect());
                return;
            }
            for i in min..all.len() {
                if all[i].0 <= remaining {
                    cur.push(i);
                    rec(all, i, remaining - all[i].0, cur, out);
                    cur.pop();
                }
            }
        }
        rec(&all, 0, n, &mut cur, &mut out);
        out
    }
}

pub fn tree_size(t: &Tree) -> usize {
    1 + t.0.iter().map(tree_size).sum::<usize>()
}

pub fn shape_size(s: &Shape) -> usize {
    s.iter().flatten().map(tree_size).sum()
}

pub fn render_shape(s: &Shape) -> String {
    fn rt(t: &Tree, out: &mut String) {
        out.push('o');
        if !t.0.is_empty() {
            out.push('(');
            for c in &t.0 {
                rt(c, out);
            }
            out.push(')');
        }
    }
    let mut out = String::new();
    for c in s {
        out.push('[');
        for t in c {
            rt(t, &mut out);
        }
        out.push(']');
    }
    out
}

/// Ops that build `shape`; handles are assigned from `*next` in creation order.
/// forward: children with append_value, chains with insert_after
/// backward: everything in reverse order with new_node + prepend / insert_before
pub fn build_ops(shape: &Shape, forward: bool, next: &mut usize) -> Vec<Op> {
    let mut ops = Vec::new();
    fn kids_fwd(t: &Tree, me: usize, next: &mut usize, ops: &mut Vec<Op>) {
        for c in &t.0 {
            let h = *next;
            *next += 1;
            ops.push(Op::AppendValue(me));
            kids_fwd(c, h, next, ops);
        }
    }
    fn kids_bwd(t: &Tree, me: usize, next: &mut usize, ops: &mut Vec<Op>) {
        for c in t.0.iter().rev() {
            let h = *next;
            *next += 1;
            ops.push(Op::New);
            // build the child's own subtree before attaching it (moves a whole subtree)
            kids_bwd(c, h, next, ops);
            ops.push(Op::Ins { kind: InsKind::Prepend, checked: h % 2 == 0, t: me, x: h });
        }
    }
    for chain in shape {
        if forward {
            let mut prev: Option<usize> = None;
            for t in chain {
                let h = *next;
                *next += 1;
                ops.push(Op::New);
                if let Some(p) = prev {
                    ops.push(Op::Ins { kind: InsKind::After, checked: h % 2 == 0, t: p, x: h });
                }
                kids_fwd(t, h, next, &mut ops);
                prev = Some(h);
            }
        } else {
            let mut prev: Option<usize> = None;
            for t in chain.iter().rev() {
                let h = *next;
                *next += 1;
                ops.push(Op::New);
                kids_bwd(t, h, next, &mut ops);
                if let Some(p) = prev {
                    ops.push(Op::Ins { kind: InsKind::Before, checked: h % 2 == 1, t: p, x: h });
                }
                prev = Some(h);
            }
        }
    }
    ops
}

#[cfg(test)]
mod tests {
    use super::*;
    #[test]
    fn counts() {
        let e = Enumerator::new(8);
        let c: Vec<usize> = (1..=8).map(|n| e.shapes(n).len()).collect();
        assert_eq!(c, vec![1, 3, 8, 25, 77, 256, 854, 2940]);
    }
}
