//! Minimal JSON value + writer (no dependency, works in every feature set).

use std::collections::BTreeMap;
use std::fmt::Write;

#[derive(Clone, Debug)]
pub enum J {
    Null,
    B(bool),
    I(i64),
    U(u64),
    F(f64),
    S(String),
    A(Vec<J>),
    O(Vec<(String, J)>),
}

impl J {
    pub fn s(x: impl Into<String>) -> J {
        J::S(x.into())
    }
    pub fn obj(pairs: Vec<(&str, J)>) -> J {
        J::O(pairs.into_iter().map(|(k, v)| (k.to_string(), v)).collect())
    }
    pub fn map_u(m: &BTreeMap<String, u64>) -> J {
        J::O(m.iter().map(|(k, v)| (k.clone(), J::U(*v))).collect())
    }
    pub fn write(&self, out: &mut String) {
        match self {
            J::Null => out.push_str("null"),
            J::B(b) => out.push_str(if *b { "true" } else { "false" }),
            J::I(i) => write!(out, "{}", i).unwrap(),
            J::U(u) => write!(out, "{}", u).unwrap(),
            J::F(f) => {
                if f.is_finite() {
                    write!(out, "{:.3}", f).unwrap()
                } else {
                    out.push_str("null")
                }
            }
            J::S(s) => {
                out.push('"');
                for c in s.chars() {
                    match c {
                        '"' => out.push_str("\\\""),
                        '\\' => out.push_str("\\\\"),
                        '\n' => out.push_str("\\n"),
                        '\r' => out.push_str("\\r"),
                        '\t' => out.push_str("\\t"),
                        c if (c as u32) < 0x20 => write!(out, "\\u{:04x}", c as u32).unwrap(),
                        c => out.push(c),
                    }
                }
                out.push('"');
            }
            J::A(v) => {
                out.push('[');
                for (i, x) in v.iter().enumerate() {
                    if i > 0 {
                        out.push(',');
                    }
                    x.write(out);
                }
                out.push(']');
            }
            J::O(v) => {
                out.push('{');
                for (i, (k, x)) in v.iter().enumerate() {
                    if i > 0 {
                        out.push(',');
                    }
                    J::S(k.clone()).write(out);
                    out.push(':');
                    x.write(out);
                }
                out.push('}');
            }
        }
    }
    pub fn to_string(&self) -> String {
        let mut s = String::new();
        self.write(&mut s);
        s
    }
}
