//! Property-specific runners and hooks: C13 (value semantics), C14 (printer),
//! C16 (serde round trip).

use crate::cov::Cov;
use crate::exec::{do_call, guarded, op_makes_payload, Finding, State, StepInfo};
use crate::gen::{Gen, GenCfg, PERSONAS};
use crate::json::J;
use crate::model::H;
use crate::ops::Op;
use crate::oracles as mon;
use crate::payload::{Payload, Plain};
use crate::rng::{mix2, Rng};
use crate::run::{Ctx, Hook, Violation};
use indextree::Arena;
use std::collections::HashSet;

// ======================================================================= C14

pub struct PrettyHook {
    pub shapes: HashSet<u64>,
}

impl<P: Payload + std::fmt::Display> Hook<P> for PrettyHook {
    fn after_step(&mut self, _ctx: &Ctx, st: &mut State<P>, _info: &StepInfo<P>, heavy: bool, rng: &mut Rng, cov: &mut Cov) -> Vec<Finding> {
        if !heavy {
            return Vec::new();
        }
        let mut starts: Vec<H> = st.model.live_handles();
        if starts.len() > 16 {
            // roots, plus a random sample of inner nodes
            let mut keep: Vec<H> = starts.iter().copied().filter(|h| st.model.parent(*h).is_none()).take(4).collect();
            while keep.len() < 14 {
                keep.push(starts[rng.below(starts.len())]);
            }
            starts = keep;
        }
        let arena = &st.arena;
        let m = &st.model;
        let text = |h: H, mode: u8| -> String {
            let p = arena[m.nodes[h].id].get();
            match mode {
                0 => format!("{}", p),
                1 => format!("{:#}", p),
                2 => format!("{:?}", p),
                _ => format!("{:#?}", p),
            }
        };
        for h in &starts {
            Cov::inc(&mut cov.node_classes, crate::exec::node_class(m, *h));
            let sub = m.subtree(*h);
            let multi = sub.iter().filter(|x| text(**x, 0).contains('\n')).count();
            if multi > 0 {
                cov.bump("renderings_with_multiline_payloads");
            }
            // last-sibling descendant below a non-last ancestor (the blank-guide vs bar-guide case)
            if sub.iter().any(|x| *x != *h && m.links(*x).next.is_none() && m.parent(*x).map_or(false, |p| p != *h && m.links(p).next.is_some())) {
                cov.bump("renderings_with_mixed_guides");
            }
            if m.links(*h).next.is_some() || m.parent(*h).is_some() {
                cov.bump("renderings_started_at_inner_or_sibling_node");
            }
        }
        let before = self.shapes.len();
        let r = mon::c14_pretty(st, &starts, &text, &mut self.shapes);
        let _ = before;
        match r {
            Ok(n) => {
                cov.evaluations += 1;
                cov.observations += n;
                for h in &starts {
                    cov.distinct.insert(mix2(m.tree_hash(*h), m.nodes[*h].tid ^ (m.nodes[*h].val << 20)));
                }
                Vec::new()
            }
            Err(f) => vec![f],
        }
    }
}

/// C02: pretty printing every root into a bounded sink.  Output that keeps coming beyond any possible
/// size of the rendering means the printer does not terminate (a printer that spins without writing
/// is left to the call-return watchdog).
pub struct PrintReturnsHook;

impl<P: Payload + std::fmt::Display> Hook<P> for PrintReturnsHook {
    fn after_step(&mut self, _ctx: &Ctx, st: &mut State<P>, _info: &StepInfo<P>, heavy: bool, _rng: &mut Rng, cov: &mut Cov) -> Vec<Finding> {
        use std::fmt::Write as _;
        if !heavy || st.steps % 4 != 0 {
            return Vec::new();
        }
        let m = &st.model;
        let mut out = Vec::new();
        for h in m.live_handles() {
            if m.parent(h).is_some() {
                continue;
            }
            let id = m.nodes[h].id;
            let sub = m.subtree(h);
            let n = sub.len();
            // every line of a payload: <= 4 bytes of guides per level (levels < n) + the line itself; the texts are
            // measured (longest of the four renderings of each payload), then everything doubled
            let mut bound = 1024usize;
            for x in &sub {
                let pl = st.arena[m.nodes[*x].id].get();
                let texts = [format!("{}", pl), format!("{:#}", pl), format!("{:?}", pl), format!("{:#?}", pl)];
                let len = texts.iter().map(|t| t.len()).max().unwrap_or(0);
                let lines = texts.iter().map(|t| t.matches('\n').count() + 1).max().unwrap_or(1);
                bound += 2 * (len + lines * (4 * n + 8));
            }
            for mode in 0..2 {
                let mut w = mon::LimitedWriter { left: bound };
                let r = guarded(|| if mode == 0 { write!(w, "{}", id.debug_pretty_print(&st.arena)) } else { write!(w, "{:#?}", id.debug_pretty_print(&st.arena)) });
                if matches!(r, Ok(Err(_))) && w.left == 0 {
                    out.push(Finding::new(&["C02"], "print/output-does-not-end".into(), format!("pretty printing the {}-node tree of root {} produced more than {} bytes and was still going", n, h, bound)));
                    return out;
                }
                cov.bump("bounded_prints");
            }
        }
        out
    }
}

// ======================================================================= C13

fn v(ctx: &Ctx, sig: &str, detail: String, workload: &str, step: usize, ops: &[Op]) -> Option<Violation> {
    Some(Violation {
        prop: ctx.prop.to_string(),
        sig: format!("value/{}", sig),
        detail,
        workload: workload.to_string(),
        step,
        ops: ops.to_vec(),
    })
}

/// The capacity / clone / clear laws of C13 for one payload TYPE (zero-sized, byte-sized, large, owning):
/// nothing in the property depends on what the payload is.
fn c13_type_laws<T: Clone + PartialEq>(name: &str, mk: &dyn Fn(u64) -> T, n: usize, k: usize) -> Result<u64, (String, String)> {
    let r = guarded(|| -> Result<u64, (String, String)> {
        let mut obs = 0u64;
        let bad = |sig: &str, d: String| Err((format!("payload-type/{}", sig), format!("Arena<{}>: {}", name, d)));
        let mut w: Arena<T> = Arena::with_capacity(n);
        if w.capacity() < n {
            return bad("with_capacity", format!("with_capacity({}).capacity() = {}", n, w.capacity()));
        }
        let fresh: Arena<T> = Arena::new();
        if w != fresh || !w.is_empty() || w.count() != 0 {
            return bad("with_capacity-observable", format!("with_capacity({}) is not equal to a new arena", n));
        }
        let mut f: Arena<T> = Arena::new();
        let mut ids: Vec<indextree::NodeId> = Vec::new();
        for i in 0..n.min(40) {
            let (x, y) = (w.new_node(mk(i as u64)), f.new_node(mk(i as u64)));
            if x != y {
                return bad("replay-id-differs", format!("node #{} got {:?} in a with_capacity({}) arena and {:?} in a new one", i, x, n, y));
            }
            if i > 0 {
                ids[i / 2].append(x, &mut w);
                ids[i / 2].append(y, &mut f);
            }
            ids.push(x);
        }
        if w != f {
            return bad("replay-arena-differs", format!("the same calls on new() and with_capacity({}) give unequal arenas", n));
        }
        if w.capacity() < n {
            return bad("capacity-guarantee-lost", format!("capacity() fell to {} below the {} asked of with_capacity", w.capacity(), n));
        }
        obs += 4;
        let before = w.clone();
        if before != w {
            return bad("clone-not-equal", "a clone does not compare equal to its original".into());
        }
        w.reserve(k);
        if w.capacity() < w.count() + k {
            return bad("reserve-room", format!("after reserve({}) capacity() = {} < count() {} + {}", k, w.capacity(), w.count(), k));
        }
        if w != before {
            return bad("reserve-observable", format!("reserve({}) changed the observable arena", k));
        }
        f.reserve(k);
        if f.capacity() < f.count() + k {
            return bad("reserve-room", format!("after reserve({}) on an arena made by new(): capacity() = {} < count() {} + {}", k, f.capacity(), f.count(), k));
        }
        let mut e: Arena<T> = Arena::new();
        e.reserve(k);
        if e.capacity() < k || e != fresh {
            return bad("reserve-room", format!("reserve({}) on an empty arena: capacity() = {}", k, e.capacity()));
        }
        obs += 4;
        if !ids.is_empty() {
            let victim = ids[ids.len() / 2];
            victim.remove(&mut w);
            if w == before {
                return bad("equality-too-coarse", "removing a node left the arena equal to its earlier clone".into());
            }
        }
        let cap = w.capacity();
        w.clear();
        if w.capacity() != cap || !w.is_empty() || w != fresh {
            return bad("clear-capacity", format!("clear(): capacity() {} -> {}, is_empty() = {}, equal to new: {}", cap, w.capacity(), w.is_empty(), w == fresh));
        }
        let mut g: Arena<T> = Arena::new();
        for i in 0..5u64 {
            if w.new_node(mk(i)) != g.new_node(mk(i)) {
                return bad("clear-then-ids-differ", "after clear() new nodes get other ids than in a new arena".into());
            }
        }
        if w != g || w.capacity() < cap {
            return bad("clear-then-differs", "after clear() the same calls give another arena than on a new one (or the capacity was given up)".into());
        }
        obs += 4;
        Ok(obs)
    });
    match r {
        Ok(x) => x,
        Err(p) => Err(("payload-type/panic".into(), format!("Arena<{}>: a call panicked: {}", name, p))),
    }
}

#[derive(Clone, PartialEq)]
struct UnitPayload;

fn c13_payload_types(rng: &mut Rng, cov: &mut Cov) -> Result<(), (String, String)> {
    let n = [0usize, 1, 3, 10, 100, 1000][rng.below(6)] + rng.below(4);
    let k = [1usize, 2, 16, 100, 5000][rng.below(5)] + rng.below(7);
    let mut obs = 0;
    obs += c13_type_laws::<()>("()", &|_| (), n, k)?;
    obs += c13_type_laws::<UnitPayload>("a unit struct", &|_| UnitPayload, n, k)?;
    obs += c13_type_laws::<std::marker::PhantomData<u64>>("PhantomData<u64>", &|_| std::marker::PhantomData, n, k)?;
    obs += c13_type_laws::<[u32; 0]>("[u32; 0]", &|_| [], n, k)?;
    obs += c13_type_laws::<((), UnitPayload)>("((), unit struct)", &|_| ((), UnitPayload), n, k)?;
    obs += c13_type_laws::<u8>("u8", &|i| i as u8, n, k)?;
    obs += c13_type_laws::<bool>("bool", &|i| i % 2 == 0, n, k)?;
    obs += c13_type_laws::<u128>("u128", &|i| i as u128 * 3, n, k)?;
    obs += c13_type_laws::<[u64; 24]>("[u64; 24]", &|i| [i; 24], n, k)?;
    obs += c13_type_laws::<String>("String", &|i| format!("s{}", i), n, k)?;
    obs += c13_type_laws::<Box<u16>>("Box<u16>", &|i| Box::new(i as u16), n, k)?;
    obs += c13_type_laws::<Option<Box<u8>>>("Option<Box<u8>>", &|i| if i % 3 == 0 { None } else { Some(Box::new(i as u8)) }, n, k)?;
    obs += c13_type_laws::<Vec<()>>("Vec<()>", &|i| vec![(); i as usize % 5], n, k)?;
    cov.observations += obs;
    cov.add("payload_types_put_through_the_capacity_clone_clear_laws", 13);
    cov.bump("payload_type_batteries");
    Ok(())
}

/// tid that `State::step` will use / used for this op
fn tid_of<P: Payload>(info: &StepInfo<P>) -> u64 {
    if op_makes_payload(&info.op) {
        info.pre_model.next_tid
    } else {
        0
    }
}

/// returns (violation, abandoned)
pub fn run_c13(ctx: &Ctx, index: u64, cov: &mut Cov) -> Option<Violation> {
    let mut rng = Rng::derive(ctx.seed, 13, index);
    let persona = PERSONAS[(index % PERSONAS.len() as u64) as usize];
    let workload = format!("c13-{}-{:?}", index, persona);
    let mut cfg = GenCfg::small();
    cfg.reserve = true;
    cfg.writes = true;
    cfg.max_live = 12;
    cfg.max_slots = 20;
    // every 7th history on arenas large enough for "more than N slots / more than half of it" conditions
    let roomy = index % 7 == 3;
    if roomy {
        cfg.max_live = 70;
        cfg.max_slots = 110;
        cov.bump("histories_on_arenas_up_to_110_slots");
    }
    let mut gen = Gen::new(cfg.clone(), persona);
    cov.histories += 1;
    {
        let mut c = ctx.beacon.current.lock().unwrap();
        c.0 = workload.clone();
        c.1.clear();
    }
    if index % 61 == 17 {
        if let Err((sig, d)) = c13_payload_types(&mut rng, cov) {
            return v(ctx, &sig, d, &workload, 0, &[]);
        }
    }
    // mostly small; now and then a request that is large in bytes
    let worn: u32 = if index % 23 == 7 { [126u32, 254, 16_382, 32_760][rng.below(4)] + rng.below(8) as u32 } else { 0 };
    let capn = if index % 97 == 5 { [3_000usize, 12_000, 50_000, 200_000][rng.below(4)] + rng.below(1000) } else { rng.below(40) };
    if capn > 1000 {
        cov.bump("with_capacity_requests_above_1000_nodes");
    }
    let mut a: State<Plain> = State::new();
    let mut b: Arena<Plain> = Arena::with_capacity(capn);
    if worn > 0 {
        // both arenas get the same past (a slot recycled `worn` times, everything free again), but
        // different spare capacity: what they do from here on must still be the same
        let mut r1 = Rng::derive(ctx.seed, 131, index);
        let mut r2 = Rng::derive(ctx.seed, 131, index);
        a = State::primed_worn(&mut r1, worn, 0);
        b = State::<Plain>::primed_worn(&mut r2, worn, capn.max(1)).arena;
        cov.bump("histories_started_on_arenas_with_a_worn_slot");
    }
    if b.capacity() < capn {
        return v(ctx, "with_capacity", format!("with_capacity({}).capacity() = {}", capn, b.capacity()), &workload, 0, &[]);
    }
    if worn == 0 && (Arena::<Plain>::default() != Arena::new() || !(a.arena == Arena::default())) {
        return v(ctx, "default-vs-new", "Arena::default() is not equal to Arena::new()".into(), &workload, 0, &[]);
    }
    if !(b == a.arena) || (worn == 0 && (!b.is_empty() || b.count() != 0)) {
        return v(ctx, "with_capacity-observable", format!("with_capacity({}) is not equal to a new arena", capn), &workload, 0, &[]);
    }
    // clear() keeps the capacity also when there is nothing to drop (cleared before first use, twice, after reserve)
    {
        let mut e: Arena<Plain> = Arena::with_capacity(capn.min(5000) + 1);
        let c0 = e.capacity();
        e.clear();
        if e.capacity() != c0 {
            return v(ctx, "clear-capacity-unused", format!("clear() of a never used arena changed capacity() {} -> {}", c0, e.capacity()), &workload, 0, &[]);
        }
        let k = rng.below(50) + 1;
        e.reserve(c0 + k);
        let c1 = e.capacity();
        e.clear();
        e.clear();
        if e.capacity() != c1 || c1 < c0 + k {
            return v(ctx, "clear-capacity-after-reserve", format!("reserve({}) + clear() twice on an empty arena: capacity() {} -> {}", c0 + k, c1, e.capacity()), &workload, 0, &[]);
        }
    }
    let mut guaranteed_b = capn;
    let mut guaranteed_a = 0usize;
    let len = if roomy { rng.range(80, 240) } else { rng.range(10, 70) };
    let fork_at = rng.below(len);
    let mut ops: Vec<Op> = Vec::new();
    let mut fork: Option<(State<Plain>, Arena<Plain>, usize)> = None;
    macro_rules! foreign {
        ($fs:expr) => {{
            if let Some(f) = $fs.first() {
                Cov::inc(&mut cov.abandoned, format!("{} [{}]", f.props.join("+"), f.sig));
                return None;
            }
        }};
    }
    for step in 0..len {
        let op = gen.next_op(&mut rng, &a.model);
        ops.push(op.clone());
        ctx.beacon.current.lock().unwrap().1.push(op.clone());
        ctx.beacon.tick.fetch_add(1, std::sync::atomic::Ordering::Relaxed);
        let info = a.step(&op);
        cov.calls += 1;
        Cov::inc(&mut cov.ops, op.kind_name());
        // reserve is this property's own operation
        if let Op::Reserve(k) = op {
            if info.changed || info.diverged {
                return v(ctx, "reserve-observable", format!("reserve({}) changed the observable arena", k), &workload, step, &ops);
            }
            if a.arena.capacity() < a.arena.count() + k {
                return v(ctx, "reserve-room", format!("after reserve({}) capacity() = {} < count() {} + {}", k, a.arena.capacity(), a.arena.count(), k), &workload, step, &ops);
            }
            guaranteed_a = guaranteed_a.max(a.arena.count() + k);
            cov.bump("reserve_calls");
        }
        foreign!(info.findings);
        if info.diverged {
            return None;
        }
        // `==` must tell apart what the calls made different (many other monitors lean on it)
        if info.pre_model.state_fingerprint() != a.model.state_fingerprint() {
            cov.bump("inequality_checks");
            if !info.changed || a.arena == info.snapshot || info.snapshot == a.arena {
                return v(ctx, "equality-too-coarse", format!("`{}` changed links/payload/liveness, yet the arena compares equal to the snapshot taken before the call", op.to_text()), &workload, step, &ops);
            }
        } else if !matches!(op, Op::Reserve(_)) && !info.refused && info.new_h.is_none() && info.changed {
            // nothing the model knows changed (a no-op re-insert): equality must not be too fine either
            return v(ctx, "equality-too-fine", format!("`{}` changed nothing observable, yet the arena differs from the snapshot", op.to_text()), &workload, step, &ops);
        }
        // (a) replay determinism in lock step, on an arena created differently
        let out_b = do_call(&mut b, &info.pre_model, &op, tid_of(&info));
        if let Op::Reserve(k) = op {
            guaranteed_b = guaranteed_b.max(b.count() + k);
        }
        if out_b.text() != info.outcome.text() {
            return v(ctx, "replay-result-differs", format!("same call `{}` on two arenas with the same history returned {} and {}", op.to_text(), info.outcome.text(), out_b.text()), &workload, step, &ops);
        }
        if let (crate::exec::Outcome::Ret(crate::exec::Ret::Id(x)), crate::exec::Outcome::Ret(crate::exec::Ret::Id(y))) = (&info.outcome, &out_b) {
            if x != y {
                return v(ctx, "replay-id-differs", format!("same history, different ids: {:?} vs {:?}", x, y), &workload, step, &ops);
            }
        }
        if step % 5 == 0 && (format!("{:?}", b) != format!("{:?}", a.arena) || format!("{:?}", a.arena) != format!("{:?}", a.arena)) {
            return v(ctx, "replay-debug-text-differs", format!("after the same {} calls the Debug text of two equal arenas differs (or differs between two calls on the same arena)", step + 1), &workload, step, &ops);
        }
        if b != a.arena {
            return v(ctx, "replay-arena-differs", format!("after the same {} calls two arenas (new() and with_capacity({})) are not equal", step + 1, capn), &workload, step, &ops);
        }
        if a.arena.capacity() < guaranteed_a || b.capacity() < guaranteed_b {
            return v(ctx, "capacity-guarantee-lost", format!("capacity() {} / {} fell below the guaranteed room {} / {}", a.arena.capacity(), b.capacity(), guaranteed_a, guaranteed_b), &workload, step, &ops);
        }
        cov.evaluations += 1;
        cov.observations += 3;
        if info.changed || info.refused {
            cov.distinct.insert(mix2(mix2(info.pre_model.forest_hash(), op.kind_name().len() as u64), match &op {
                Op::Ins { t, x, .. } => mix2(info.pre_model.pos_hash(*t), info.pre_model.pos_hash(*x)),
                _ => step as u64 % 7,
            }));
        }
        // (b) clone
        if step == fork_at {
            let c = if rng.chance(1, 2) {
                a.arena.clone()
            } else {
                // clone_from into an arena with a history (slots, pending free list) of its own
                let mut d: Arena<Plain> = Arena::new();
                let k = rng.range(1, 30);
                let mut ids = Vec::new();
                for i in 0..k {
                    ids.push(d.new_node(Plain { tid: 900_000, val: i as u64 }));
                }
                let mut nrem = rng.below(k + 1);
                while nrem > 0 && !ids.is_empty() {
                    let i = rng.below(ids.len());
                    ids.swap_remove(i).remove(&mut d);
                    nrem -= 1;
                }
                d.clone_from(&a.arena);
                cov.bump("clones_taken_with_clone_from_into_used_arena");
                d
            };
            if c != a.arena {
                return v(ctx, "clone-not-equal", "a clone (clone / clone_from) does not compare equal to its original".into(), &workload, step, &ops);
            }
            let keep = c.clone();
            fork = Some((
                State {
                    arena: c,
                    model: a.model.clone(),
                    issued: a.issued.clone(),
                    steps: a.steps,
                },
                keep,
                step + 1,
            ));
            cov.bump("clones_taken");
            if !a.model.avail.is_empty() {
                cov.bump("clones_with_pending_free_slots");
            }
        }
    }
    // scratch replay of the whole history of A
    let replay = |ops: &[Op]| -> Result<State<Plain>, String> {
        let mut s: State<Plain> = if worn > 0 {
            let mut r = Rng::derive(ctx.seed, 131, index);
            State::primed_worn(&mut r, worn, 0)
        } else {
            State::new()
        };
        for op in ops {
            let i = s.step(op);
            if i.diverged || !i.findings.is_empty() {
                return Err(format!("replay hit a finding at `{}`", op.to_text()));
            }
        }
        Ok(s)
    };
    match replay(&ops) {
        Ok(r) => {
            if r.arena != a.arena {
                return v(ctx, "scratch-replay-differs", "replaying the same calls on a new arena gives a different arena".into(), &workload, ops.len(), &ops);
            }
            for h in 0..r.model.nodes.len() {
                if r.model.nodes[h].id != a.model.nodes[h].id {
                    return v(ctx, "scratch-replay-id-differs", format!("node #{} got id {:?} in one run and {:?} in the replay", h, a.model.nodes[h].id, r.model.nodes[h].id), &workload, ops.len(), &ops);
                }
            }
            cov.bump("scratch_replays_equal");
        }
        Err(_) => return None,
    }
    // continuation Y on the clone; A must not move, the clone must not have moved
    if let Some((mut f, keep, plen)) = fork {
        if f.arena != keep {
            return v(ctx, "clone-affected-by-original", "the clone changed while only the original was used".into(), &workload, ops.len(), &ops);
        }
        let a_snap = a.arena.clone();
        let mut yops: Vec<Op> = ops[..plen].to_vec();
        let mut rng_y = Rng::derive(ctx.seed, 113, index);
        let mut gen_y = Gen::new(cfg.clone(), PERSONAS[((index + 3) % PERSONAS.len() as u64) as usize]);
        let ylen = rng.range(5, 40);
        for _ in 0..ylen {
            let op = gen_y.next_op(&mut rng_y, &f.model);
            yops.push(op.clone());
            let info = f.step(&op);
            cov.calls += 1;
            foreign!(info.findings);
            if info.diverged {
                return None;
            }
        }
        if a.arena != a_snap {
            return v(ctx, "original-affected-by-clone", "the original changed while only the clone was used".into(), &workload, yops.len(), &yops);
        }
        match replay(&yops) {
            Ok(r) => {
                if r.arena != f.arena {
                    return v(ctx, "clone-continuation-differs", "clone + continuation differs from replaying prefix + continuation on a new arena".into(), &workload, yops.len(), &yops);
                }
                cov.bump("clone_continuations_equal");
            }
            Err(_) => return None,
        }
        cov.evaluations += 1;
    }
    if index % 89 == 7 {
        // a large reserve on a used arena
        let k = [5_000usize, 40_000, 150_000][rng.below(3)] + rng.below(500);
        let before = a.arena.clone();
        a.arena.reserve(k);
        if a.arena.capacity() < a.arena.count() + k {
            return v(ctx, "reserve-room", format!("after reserve({}) capacity() = {} < count() {} + {}", k, a.arena.capacity(), a.arena.count(), k), &workload, ops.len(), &ops);
        }
        if a.arena != before {
            return v(ctx, "reserve-observable", format!("reserve({}) changed the observable arena", k), &workload, ops.len(), &ops);
        }
        cov.bump("reserve_requests_above_1000_nodes");
    }
    if index % 13 == 3 && a.arena.count() > 0 {
        // a request that cannot be satisfied: the call must not return as if it had been
        for k in [usize::MAX - rng.below(a.arena.count() + 1), usize::MAX / 2 + rng.below(1000), (isize::MAX as usize) / 16] {
            let mut c = a.arena.clone();
            let r = guarded(|| c.reserve(k));
            if r.is_ok() && (c.capacity() < c.count().saturating_add(k)) {
                return v(ctx, "reserve-huge-returned", format!("reserve({}) returned normally with count() = {} and capacity() = {}", k, c.count(), c.capacity()), &workload, ops.len(), &ops);
            }
            if c != a.arena {
                return v(ctx, "reserve-huge-observable", format!("a refused reserve({}) changed the arena", k), &workload, ops.len(), &ops);
            }
        }
        cov.bump("unsatisfiable_reserve_requests");
    }
    // (c) clear
    let cap = a.arena.capacity();
    let had_free = !a.model.avail.is_empty();
    let had_recycled = a.model.recycles.iter().any(|r| *r > 0);
    let info = a.step(&Op::Clear);
    ops.push(Op::Clear);
    foreign!(info.findings);
    if !a.arena.is_empty() || a.arena.count() != 0 {
        return v(ctx, "clear-not-empty", format!("after clear(): is_empty() = {}, count() = {}", a.arena.is_empty(), a.arena.count()), &workload, ops.len(), &ops);
    }
    if a.arena.capacity() != cap {
        return v(ctx, "clear-capacity", format!("clear() changed capacity() {} -> {}", cap, a.arena.capacity()), &workload, ops.len(), &ops);
    }
    a.arena.clear();
    if a.arena.capacity() != cap || !a.arena.is_empty() {
        return v(ctx, "clear-twice-capacity", format!("a second clear() changed capacity() {} -> {}", cap, a.arena.capacity()), &workload, ops.len(), &ops);
    }
    if a.arena != Arena::new() {
        return v(ctx, "clear-not-equal-new", "a cleared arena does not compare equal to a new one".into(), &workload, ops.len(), &ops);
    }
    cov.bump("clears");
    if had_free {
        cov.bump("clears_with_pending_free_slots");
    }
    if had_recycled {
        cov.bump("clears_after_recycling");
    }
    let mut fresh: Arena<Plain> = Arena::new();
    let hlen = rng.range(8, 50);
    for step in 0..hlen {
        let op = gen.next_op(&mut rng, &a.model);
        if matches!(op, Op::Reserve(_)) {
            continue;
        }
        ops.push(op.clone());
        let info = a.step(&op);
        cov.calls += 1;
        foreign!(info.findings);
        if info.diverged {
            return None;
        }
        let out = do_call(&mut fresh, &info.pre_model, &op, tid_of(&info));
        if out.text() != info.outcome.text() || fresh != a.arena {
            return v(ctx, "cleared-vs-new-differs", format!("call `{}` (#{} after clear): cleared arena returned {}, new arena returned {}; arenas equal: {}", op.to_text(), step, info.outcome.text(), out.text(), fresh == a.arena), &workload, ops.len(), &ops);
        }
        if let (crate::exec::Outcome::Ret(crate::exec::Ret::Id(x)), crate::exec::Outcome::Ret(crate::exec::Ret::Id(y))) = (&info.outcome, &out) {
            if x != y {
                return v(ctx, "cleared-vs-new-id-differs", format!("after clear the arena issued {:?}, a new arena issued {:?}", x, y), &workload, ops.len(), &ops);
            }
        }
        cov.observations += 2;
    }
    cov.evaluations += 1;
    if cov.samples.len() < 3 {
        cov.samples.push(J::obj(vec![
            ("workload", J::s(workload)),
            ("history", J::A(ops.iter().take(50).map(|o| J::s(o.to_text())).collect())),
            ("with_capacity", J::U(capn as u64)),
            ("clone_taken_after_call", J::U(fork_at as u64 + 1)),
        ]));
    }
    let _ = guarded(|| ());
    None
}

// ======================================================================= C16

#[cfg(feature = "deser")]
pub struct SerdeHook<P: Payload> {
    pub shadows: Vec<(Arena<P>, &'static str)>,
}

#[cfg(feature = "deser")]
impl<P: Payload + serde::Serialize + serde::de::DeserializeOwned> Hook<P> for SerdeHook<P> {
    fn after_step(&mut self, _ctx: &Ctx, st: &mut State<P>, info: &StepInfo<P>, _heavy: bool, rng: &mut Rng, cov: &mut Cov) -> Vec<Finding> {
        let mut out = Vec::new();
        let f = |sig: &str, d: String| Finding::new(&["C16"], format!("serde/{}", sig), d);
        // the copies made earlier follow the same calls
        for (sh, fmt) in self.shadows.iter_mut() {
            let o = do_call(sh, &info.pre_model, &info.op, tid_of(info));
            if o.text() != info.outcome.text() {
                out.push(f(&format!("{}-continuation-result", fmt), format!("`{}` returned {} on the original and {} on the round-tripped copy", info.op.to_text(), info.outcome.text(), o.text())));
                return out;
            }
            if *sh != st.arena {
                out.push(f(&format!("{}-continuation-arena", fmt), format!("after `{}` the round-tripped copy differs from the original", info.op.to_text())));
                return out;
            }
            cov.observations += 2;
        }
        if !self.shadows.is_empty() {
            cov.evaluations += 1;
        }
        if self.shadows.len() < 8 && rng.chance(1, 10) {
            for fmt in ["json", "json-reader", "json-value", "positional"] {
                let r = guarded(|| -> Result<Arena<P>, String> {
                    if fmt == "json" {
                        let s = serde_json::to_string(&st.arena).map_err(|e| format!("serialize: {}", e))?;
                        serde_json::from_str(&s).map_err(|e| format!("deserialize: {} in {}", e, s))
                    } else if fmt == "json-reader" {
                        // a deserializer that hands out owned (not borrowed) strings
                        let s = serde_json::to_vec_pretty(&st.arena).map_err(|e| format!("serialize: {}", e))?;
                        serde_json::from_reader(std::io::Cursor::new(s)).map_err(|e| format!("deserialize from a reader: {}", e))
                    } else if fmt == "json-value" {
                        let v = serde_json::to_value(&st.arena).map_err(|e| format!("serialize to a value: {}", e))?;
                        serde_json::from_value(v).map_err(|e| format!("deserialize from a value: {}", e))
                    } else {
                        let bytes = crate::posfmt::to_bytes(&st.arena).map_err(|e| format!("serialize: {}", e))?;
                        crate::posfmt::from_bytes(&bytes).map_err(|e| format!("deserialize: {}", e))
                    }
                });
                let b = match r {
                    Ok(Ok(b)) => b,
                    Ok(Err(e)) => {
                        out.push(f(&format!("{}-error", fmt), e));
                        return out;
                    }
                    Err(p) => {
                        out.push(f(&format!("{}-panic", fmt), p));
                        return out;
                    }
                };
                if b != st.arena {
                    out.push(f(&format!("{}-not-equal", fmt), format!("deserialize(serialize(arena)) != arena ({} slots, {} free)", st.arena.count(), st.model.avail.len())));
                    return out;
                }
                let chk = guarded(|| {
                    for h in st.model.epoch_handles() {
                        let id = st.model.nodes[h].id;
                        if id.is_removed(&b) != id.is_removed(&st.arena) {
                            return Some(format!("is_removed of id of node #{} differs on the copy", h));
                        }
                        if st.model.is_live(h) {
                            if State::<P>::actual_links(&b, id) != State::<P>::actual_links(&st.arena, id) || b[id].get() != st.arena[id].get() {
                                return Some(format!("links or payload of node #{} differ on the copy", h));
                            }
                        }
                    }
                    None
                });
                match chk {
                    Ok(None) => {}
                    Ok(Some(d)) => {
                        out.push(f(&format!("{}-id-behaviour", fmt), d));
                        return out;
                    }
                    Err(p) => {
                        out.push(f(&format!("{}-panic", fmt), p));
                        return out;
                    }
                }
                cov.bump(&format!("round_trips_{}", fmt.replace('-', "_")));
                cov.evaluations += 1;
                cov.observations += st.model.nodes.len() as u64;
                if !st.model.avail.is_empty() {
                    cov.bump("round_trips_with_pending_free_slots");
                }
                if st.model.recycles.iter().any(|r| *r > 0) {
                    cov.bump("round_trips_with_recycled_slots");
                }
                let mut lay = crate::rng::Digest::default();
                for c in &st.model.slot_cur {
                    lay.u(c.map_or(2, |h| st.model.is_live(h) as u64));
                }
                cov.distinct.insert(mix2(lay.0, st.model.forest_hash()));
                self.shadows.push((b, fmt));
            }
        }
        out
    }
}

// ======================================================================= C17

/// Observation battery: logs *every* observable of the core API into a digest
/// that must be identical in every feature set.
#[derive(Default)]
pub struct BatteryHook {
    pub d: crate::rng::Digest,
    pub observations: u64,
}

/// keeps what was written until `left` bytes are used up; the write that does not fit is refused as a whole
pub struct RecordingSink {
    pub buf: String,
    pub left: usize,
    pub writes: u64,
}

impl std::fmt::Write for RecordingSink {
    fn write_str(&mut self, s: &str) -> std::fmt::Result {
        self.writes += 1;
        if s.len() > self.left {
            self.left = 0;
            return Err(std::fmt::Error);
        }
        self.left -= s.len();
        self.buf.push_str(s);
        Ok(())
    }
}

impl BatteryHook {
    #[allow(deprecated)]
    fn observe<P: Payload + std::fmt::Display>(&mut self, st: &State<P>, info: &StepInfo<P>) -> Result<(), String> {
        use crate::exec::{Outcome, Ret};
        let d = &mut self.d;
        d.s(&info.op.to_text());
        d.s(&info.outcome.text());
        match &info.outcome {
            Outcome::Ret(Ret::Res(Err(e))) => {
                d.s(&format!("{}", e));
                d.s(&format!("{:?}", e));
            }
            Outcome::Ret(Ret::Id(id)) => {
                d.s(&id.to_string());
                d.s(&format!("{:>5}|{:<4}|{:^7}|{:05}|{:+}|{:#}", id, id, id, id, id, id));
                d.u(usize::from(*id) as u64);
                d.s(&format!("{:?}", id));
            }
            _ => {}
        }
        let a = &st.arena;
        d.u(a.count() as u64);
        d.u(a.is_empty() as u64);
        let bound = 2 * a.count() + 3;
        for (i, n) in a.iter().enumerate() {
            d.u(n.is_removed() as u64);
            d.s(&format!("{}", n));
            if i % 5 == 0 {
                d.s(&format!("{:>6}|{:04}|{:+}", n, n, n));
            }
            if n.is_removed() {
                continue;
            }
            let id = a.get_node_id(n).ok_or("get_node_id None")?;
            d.u(usize::from(id) as u64);
            d.u((a.get_node_id_at(std::num::NonZeroUsize::new(i + 1).unwrap()) == Some(id)) as u64);
            d.u(id.is_removed(a) as u64);
            d.u(n.get().tid());
            d.u(n.get().val());
            for x in id.ancestors(a).take(bound) { d.u(usize::from(x) as u64) }
            d.u(1 << 40);
            for x in id.predecessors(a).take(bound) { d.u(usize::from(x) as u64) }
            d.u(2 << 40);
            for x in id.preceding_siblings(a).take(bound) { d.u(usize::from(x) as u64) }
            d.u(3 << 40);
            for x in id.following_siblings(a).take(bound) { d.u(usize::from(x) as u64) }
            d.u(4 << 40);
            for x in id.following_siblings(a).rev().take(bound) { d.u(usize::from(x) as u64) }
            d.u(5 << 40);
            for x in id.children(a).take(bound) { d.u(usize::from(x) as u64) }
            d.u(6 << 40);
            for x in id.children(a).rev().take(bound) { d.u(usize::from(x) as u64) }
            d.u(7 << 40);
            for x in id.reverse_children(a).take(bound) { d.u(usize::from(x) as u64) }
            d.u(8 << 40);
            for x in id.descendants(a).take(bound) { d.u(usize::from(x) as u64) }
            d.u(9 << 40);
            for e in id.traverse(a).take(bound) { d.s(&format!("{:?}", e)) }
            d.u(10 << 40);
            for e in id.reverse_traverse(a).take(bound) { d.s(&format!("{:?}", e)) }
            if n.parent().is_none() || i % 3 == 0 {
                d.s(&format!("{}", id.debug_pretty_print(a)));
                d.s(&format!("{:#}", id.debug_pretty_print(a)));
                d.s(&format!("{:?}", id.debug_pretty_print(a)));
                d.s(&format!("{:#?}", id.debug_pretty_print(a)));
                // a sink that runs full part-way: what reached it before the error is a result too
                for limit in [0usize, 1, 9, 33, 120] {
                    use std::fmt::Write as _;
                    let mut w = RecordingSink { buf: String::new(), left: limit, writes: 0 };
                    let r = write!(w, "{}", id.debug_pretty_print(a));
                    d.u(r.is_err() as u64);
                    d.s(&w.buf);
                    let mut w2 = RecordingSink { buf: String::new(), left: limit, writes: 0 };
                    let r2 = write!(w2, "{:#?}", id.debug_pretty_print(a));
                    d.u(r2.is_err() as u64);
                    d.s(&w2.buf);
                }
            }
            self.observations += 14;
        }
        Ok(())
    }
}

impl BatteryHook {
    /// What ids that are no longer current (removed nodes, recycled slots) give: every lookup and every walk
    /// started from them, as a value or as "panicked" - whatever it is, it is the same in every build.
    #[allow(deprecated)]
    fn observe_stale<P: Payload + std::fmt::Display>(&mut self, st: &mut State<P>) {
        let m = &st.model;
        let stale: Vec<indextree::NodeId> = (0..m.nodes.len()).rev().filter(|h| !m.is_live(*h)).take(12).map(|h| m.nodes[h].id).collect();
        let bound = 2 * st.arena.count() + 3;
        for id in stale {
            let a = &st.arena;
            let d = &mut self.d;
            d.u(usize::from(id) as u64);
            d.u(guarded(|| id.is_removed(a)).map_or(7, |b| b as u64));
            d.u(guarded(|| a.get(id).map(|n| n.is_removed())).map_or(7, |o| o.map_or(2, |b| b as u64)));
            d.u(guarded(|| a.get(id).and_then(|n| a.get_node_id(n)).map(|x| x == id)).map_or(7, |o| o.map_or(2, |b| b as u64)));
            macro_rules! walk {
                ($e:expr) => {
                    d.u(guarded(|| $e.take(bound).map(|x| usize::from(x) as u64).fold(0u64, |s, x| s.wrapping_mul(31).wrapping_add(x))).unwrap_or(u64::MAX))
                };
            }
            walk!(id.ancestors(a));
            walk!(id.predecessors(a));
            walk!(id.preceding_siblings(a));
            walk!(id.following_siblings(a));
            walk!(id.following_siblings(a).rev());
            walk!(id.children(a));
            walk!(id.reverse_children(a));
            walk!(id.descendants(a));
            d.u(guarded(|| id.traverse(a).take(bound).count()).map_or(u64::MAX, |c| c as u64));
            d.u(guarded(|| format!("{}", id.debug_pretty_print(a)).len()).map_or(u64::MAX, |c| c as u64));
            let am = &mut st.arena;
            self.d.u(guarded(|| am.get_mut(id).map(|n| n.is_removed())).map_or(7, |o| o.map_or(2, |b| b as u64)));
            self.observations += 15;
        }
    }

    /// observations that are the same in every correct build: does an unsatisfiable reserve return?
    fn observe_end<P: Payload>(&mut self, st: &State<P>) {
        for k in [usize::MAX, usize::MAX / 2, (isize::MAX as usize) / 8] {
            let mut c = st.arena.clone();
            let r = guarded(|| c.reserve(k));
            self.d.u(r.is_ok() as u64);
            self.d.u((c.capacity() >= c.count().saturating_add(k)) as u64);
            self.d.u((c == st.arena) as u64);
        }
        let mut c = st.arena.clone();
        let cap = c.capacity();
        c.clear();
        self.d.u((c.capacity() == cap) as u64);
        self.d.u(c.count() as u64);
        self.observations += 5;
    }
}

impl<P: Payload + std::fmt::Display + Sync> Hook<P> for BatteryHook {
    fn at_end(&mut self, _ctx: &Ctx, st: &mut State<P>, _rng: &mut Rng, cov: &mut Cov) -> Vec<Finding> {
        self.observe_end(st);
        cov.observations += 5;
        Vec::new()
    }
    fn after_step(&mut self, _ctx: &Ctx, st: &mut State<P>, info: &StepInfo<P>, _heavy: bool, _rng: &mut Rng, cov: &mut Cov) -> Vec<Finding> {
        let before = self.observations;
        let r = guarded(|| self.observe(st, info));
        let mut out = Vec::new();
        match r {
            Ok(Ok(())) => {}
            Ok(Err(e)) => out.push(Finding::new(&["C17"], "battery/observation-failed".into(), e)),
            Err(p) => out.push(Finding::new(&["C17"], "battery/panic".into(), p)),
        }
        if !info.diverged {
            self.observe_stale(st);
        }
        cov.evaluations += 1;
        cov.observations += self.observations - before;
        #[cfg(feature = "par_iter")]
        {
            use rayon::prelude::*;
            let r = guarded(|| {
                let a = &st.arena;
                let seq: Vec<*const indextree::Node<P>> = a.iter().map(|n| n as *const _).collect();
                let par: Vec<usize> = a.par_iter().map(|n| n as *const indextree::Node<P> as usize).collect();
                let seq_u: Vec<usize> = seq.iter().map(|p| *p as usize).collect();
                if par != seq_u {
                    return Some(format!("par_iter().collect() visits {} nodes / different order than iter() ({} nodes)", par.len(), seq_u.len()));
                }
                let cnt = std::sync::atomic::AtomicUsize::new(0);
                let live = std::sync::atomic::AtomicUsize::new(0);
                a.par_iter().for_each(|n| {
                    cnt.fetch_add(1, std::sync::atomic::Ordering::Relaxed);
                    if !n.is_removed() {
                        live.fetch_add(1, std::sync::atomic::Ordering::Relaxed);
                    }
                });
                if cnt.into_inner() != a.count() || live.into_inner() != st.model.live_count() {
                    return Some("par_iter().for_each visited a different number of nodes than count()".to_string());
                }
                None
            });
            match r {
                Ok(None) => cov.bump("par_iter_comparisons"),
                Ok(Some(e)) => out.push(Finding::new(&["C17"], "battery/par_iter-differs".into(), e)),
                Err(p) => out.push(Finding::new(&["C17"], "battery/par_iter-panic".into(), p)),
            }
        }
        out
    }
}

/// with feature `macros`: a tree built by `tree!` equals the hand-built one
#[cfg(feature = "macros")]
pub fn macro_battery() -> Result<u64, String> {
    use indextree::macros::tree;
    let mut a: Arena<Plain> = Arena::new();
    let p = |t: u64| Plain { tid: t, val: t };
    let r = tree!(&mut a, p(0) => { p(1), p(2) => { p(3) => { p(4) }, p(5), }, p(6) => {}, });
    let mut b: Arena<Plain> = Arena::new();
    let r0 = b.new_node(p(0));
    let n1 = b.new_node(p(1));
    r0.append(n1, &mut b);
    let n2 = r0.append_value(p(2), &mut b);
    let n3 = n2.append_value(p(3), &mut b);
    n3.append_value(p(4), &mut b);
    n2.append_value(p(5), &mut b);
    r0.append_value(p(6), &mut b);
    if a != b || r != r0 {
        return Err("tree! result differs from the hand-built tree".into());
    }
    Ok(7)
}

// ======================================================================= C18

/// Read-only observation battery over a shared `&Arena`: everything a reader
/// can observe, folded into a digest.  `yield_seed` != 0 injects `yield_now`
/// at pseudo-random points (between reads, never inside one).
#[allow(deprecated)]
pub fn read_battery<P: Payload + std::fmt::Display>(a: &Arena<P>, yield_seed: u64, stamp: &dyn Fn()) -> crate::rng::Digest {
    let mut d = crate::rng::Digest::default();
    let mut r = Rng::new(yield_seed);
    let mut maybe_yield = |r: &mut Rng| {
        if yield_seed != 0 && r.chance(1, 5) {
            std::thread::yield_now();
        }
    };
    let bound = 2 * a.count() + 3;
    d.u(a.count() as u64);
    d.s(&format!("{:?}", a));
    for (i, n) in a.iter().enumerate() {
        d.u(n.is_removed() as u64);
        d.s(&format!("{}", n));
        if n.is_removed() {
            continue;
        }
        stamp();
        let id = a.get_node_id(n).expect("get_node_id");
        d.u(usize::from(id) as u64);
        d.u((a.get_node_id_at(std::num::NonZeroUsize::new(i + 1).unwrap()) == Some(id)) as u64);
        d.u((a.get(id).map(|x| x as *const _) == Some(n as *const _)) as u64);
        d.u(id.is_removed(a) as u64);
        d.u(n.get().tid());
        d.u(n.get().val());
        maybe_yield(&mut r);
        for x in id.ancestors(a).take(bound) { d.u(usize::from(x) as u64) }
        d.u(1 << 40);
        for x in id.predecessors(a).take(bound) { d.u(usize::from(x) as u64) }
        d.u(2 << 40);
        maybe_yield(&mut r);
        for x in id.preceding_siblings(a).take(bound) { d.u(usize::from(x) as u64) }
        d.u(3 << 40);
        for x in id.following_siblings(a).rev().take(bound) { d.u(usize::from(x) as u64) }
        d.u(4 << 40);
        for x in id.children(a).take(bound) { d.u(usize::from(x) as u64); maybe_yield(&mut r); }
        d.u(5 << 40);
        for x in id.children(a).rev().take(bound) { d.u(usize::from(x) as u64) }
        d.u(6 << 40);
        for x in id.reverse_children(a).take(bound) { d.u(usize::from(x) as u64) }
        d.u(7 << 40);
        for x in id.descendants(a).take(bound) { d.u(usize::from(x) as u64) }
        maybe_yield(&mut r);
        d.u(8 << 40);
        for e in id.traverse(a).take(bound) { d.s(&format!("{:?}", e)) }
        d.u(9 << 40);
        for e in id.reverse_traverse(a).take(bound) { d.s(&format!("{:?}", e)) }
        if n.parent().is_none() {
            maybe_yield(&mut r);
            if yield_seed != 0 && r.chance(1, 2) {
                // a print aborted part-way on this thread must not change what is printed next
                use std::fmt::Write as _;
                let mut w = mon::LimitedWriter { left: r.below(48) };
                let _ = write!(w, "{:#?}", id.debug_pretty_print(a));
            }
            if yield_seed != 0 && r.chance(1, 3) {
                // this reader dies inside a dump (its payload's Display panics); nobody else may notice
                crate::payload::set_display_panics(true);
                let _ = guarded(|| format!("{}", id.debug_pretty_print(a)));
                crate::payload::set_display_panics(false);
            }
            d.s(&format!("{}", id.debug_pretty_print(a)));
            d.s(&format!("{:#?}", id.debug_pretty_print(a)));
        }
    }
    d
}

/// builds a shared arena by a hostile history (W1) and returns it
pub fn build_shared(seed: u64, index: u64, len: usize, max_live: usize) -> State<Plain> {
    let mut rng = Rng::derive(seed, 18, index);
    let mut cfg = GenCfg::small();
    cfg.max_live = max_live;
    cfg.max_slots = max_live * 2;
    cfg.unchecked_impossible = false;
    let mut gen = Gen::new(cfg, PERSONAS[(index % PERSONAS.len() as u64) as usize]);
    let mut st: State<Plain> = State::new();
    for _ in 0..len {
        let op = gen.next_op(&mut rng, &st.model);
        let info = st.step(&op);
        if info.diverged {
            break;
        }
    }
    st
}

/// C08 through the macro: payloads created by `tree!` (root given as a value, and children) are not
/// dropped while their nodes are live and exactly once afterwards.
#[cfg(feature = "macros")]
pub fn c08_macro_battery() -> Result<u64, (String, String)> {
    use crate::payload::{drops_of, drops_reset, Tok};
    use indextree::macros::tree;
    drops_reset();
    let t = |k: u64| <Tok as Payload>::make(k, k * 3);
    let mut a: Arena<Tok> = Arena::new();
    let pre = a.new_node(t(0));
    pre.remove(&mut a); // a free slot for the root to land in
    let r1 = tree!(&mut a, t(1) => { t(2), t(3) => { t(4) }, t(5) });
    let r2 = tree!(&mut a, t(6));
    let r3 = tree!(&mut a, r2 => { t(7) => {}, });
    let mut bad: Option<(String, String)> = None;
    for k in 1..=7u64 {
        if drops_of(k) != 0 {
            bad = Some(("macro-payload-dropped-while-live".into(), format!("payload token {} created by tree! was dropped {} times while its node is live", k, drops_of(k))));
            break;
        }
    }
    if bad.is_none() && (r3 != r2 || a[r1].get().tid() != 1 || a[r2].get().tid() != 6 || r1.descendants(&a).count() != 5 || r2.children(&a).count() != 1) {
        bad = Some(("macro-tree-shape".into(), "tree! built something else than written".into()));
    }
    if let Some(b) = bad {
        // do not run the destructors of a structure that may own a payload twice
        std::mem::forget(a);
        return Err(b);
    }
    r1.remove_subtree(&mut a);
    for k in 1..=5u64 {
        if drops_of(k) != 1 {
            std::mem::forget(a);
            return Err(("macro-payload-drop-count".into(), format!("payload token {} was dropped {} times by remove_subtree", k, drops_of(k))));
        }
    }
    drop(a);
    for k in 0..=7u64 {
        if drops_of(k) != 1 {
            return Err(("macro-payload-drop-count-final".into(), format!("payload token {} was dropped {} times in total", k, drops_of(k))));
        }
    }
    Ok(8)
}
