//! Operations of a history, over node handles (creation indices).

use crate::model::{InsKind, H};

#[derive(Clone, Debug, PartialEq, Eq)]
pub enum Op {
    New,
    AppendValue(H),
    Ins { kind: InsKind, checked: bool, t: H, x: H },
    Detach(H),
    Remove(H),
    RemoveSubtree(H),
    /// in-place write through `get_mut(id).get_mut()`
    Write(H, u64),
    /// whole-value replacement through `IndexMut`
    Replace(H),
    /// `iter_mut()` over all slots, adding k to every live payload value
    IterMutAdd(u64),
    Clear,
    Reserve(usize),
}

impl Op {
    pub fn kind_name(&self) -> String {
        match self {
            Op::New => "new_node".into(),
            Op::AppendValue(_) => "append_value".into(),
            Op::Ins { kind, checked, .. } => {
                if *checked {
                    format!("checked_{}", kind.name())
                } else {
                    kind.name().to_string()
                }
            }
            Op::Detach(_) => "detach".into(),
            Op::Remove(_) => "remove".into(),
            Op::RemoveSubtree(_) => "remove_subtree".into(),
            Op::Write(..) => "get_mut_write".into(),
            Op::Replace(_) => "replace_value".into(),
            Op::IterMutAdd(_) => "iter_mut_add".into(),
            Op::Clear => "clear".into(),
            Op::Reserve(_) => "reserve".into(),
        }
    }

    pub fn to_text(&self) -> String {
        match self {
            Op::New | Op::Clear => self.kind_name(),
            Op::AppendValue(p) => format!("append_value {}", p),
            Op::Ins { t, x, .. } => format!("{} {} {}", self.kind_name(), t, x),
            Op::Detach(x) | Op::Remove(x) | Op::RemoveSubtree(x) | Op::Replace(x) => {
                format!("{} {}", self.kind_name(), x)
            }
            Op::Write(x, v) => format!("get_mut_write {} {}", x, v),
            Op::IterMutAdd(k) => format!("iter_mut_add {}", k),
            Op::Reserve(k) => format!("reserve {}", k),
        }
    }

    pub fn parse(line: &str) -> Option<Op> {
        let mut it = line.split_whitespace();
        let name = it.next()?;
        let mut num = || it.next().and_then(|s| s.parse::<u64>().ok());
        let ins = |kind, checked, t: Option<u64>, x: Option<u64>| {
            Some(Op::Ins {
                kind,
                checked,
                t: t? as usize,
                x: x? as usize,
            })
        };
        Some(match name {
            "new_node" => Op::New,
            "clear" => Op::Clear,
            "append_value" => Op::AppendValue(num()? as usize),
            "detach" => Op::Detach(num()? as usize),
            "remove" => Op::Remove(num()? as usize),
            "remove_subtree" => Op::RemoveSubtree(num()? as usize),
            "replace_value" => Op::Replace(num()? as usize),
            "get_mut_write" => {
                let a = num()?;
                let b = num()?;
                Op::Write(a as usize, b)
            }
            "iter_mut_add" => Op::IterMutAdd(num()?),
            "reserve" => Op::Reserve(num()? as usize),
            _ => {
                let (checked, base) = match name.strip_prefix("checked_") {
                    Some(b) => (true, b),
                    None => (false, name),
                };
                let kind = match base {
                    "append" => InsKind::Append,
                    "prepend" => InsKind::Prepend,
                    "insert_after" => InsKind::After,
                    "insert_before" => InsKind::Before,
                    _ => return None,
                };
                let t = num();
                let x = num();
                return ins(kind, checked, t, x);
            }
        })
    }
}
