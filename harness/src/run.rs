//! Workload runners: W1 random hostile histories, W2 systematic sweep,
//! W3 generation churn; own-vs-foreign finding discipline; replay.

use crate::cov::Cov;
use crate::exec::{classify, guarded, node_class, Finding, Outcome, Ret, State, StepInfo};
use crate::gen::{Gen, GenCfg, Persona, PERSONAS};
use crate::json::J;
use crate::model::{InsKind, H, INS_KINDS};
use crate::ops::Op;
use crate::oracles as mon;
use crate::payload::Payload;
use crate::rng::{mix2, Digest, Rng};
use crate::shapes::{build_ops, render_shape, Enumerator, Shape};
use indextree::Arena;
use std::collections::HashSet;
use std::sync::atomic::{AtomicU64, Ordering};
use std::sync::{Arc, Mutex};

#[derive(Clone, Debug)]
pub struct Violation {
    pub prop: String,
    pub sig: String,
    pub detail: String,
    pub workload: String,
    pub step: usize,
    pub ops: Vec<Op>,
}

#[derive(Clone, Copy, Debug, PartialEq, Eq)]
pub enum Size {
    Small,
    Large,
}

/// Progress beacon for the call-return watchdog.
#[derive(Default)]
pub struct Beacon {
    pub tick: AtomicU64,
    pub current: Mutex<(String, Vec<Op>)>,
}

#[derive(Clone)]
pub struct Ctx {
    pub prop: &'static str,
    pub seed: u64,
    pub profile: String,
    /// run the heavy monitors at every step (replay mode)
    pub always_heavy: bool,
    pub beacon: Arc<Beacon>,
}

impl Ctx {
    pub fn owns(&self, f: &Finding) -> bool {
        f.props.iter().any(|p| *p == self.prop)
    }
    pub fn is(&self, p: &str) -> bool {
        self.prop == p
    }
}

/// Extra per-history monitor with its own state (C13 lockstep, C14 printer, C16 round trips).
pub trait Hook<P: Payload> {
    fn after_step(&mut self, _ctx: &Ctx, _st: &mut State<P>, _info: &StepInfo<P>, _heavy: bool, _rng: &mut Rng, _cov: &mut Cov) -> Vec<Finding> {
        Vec::new()
    }
    fn at_end(&mut self, _ctx: &Ctx, _st: &mut State<P>, _rng: &mut Rng, _cov: &mut Cov) -> Vec<Finding> {
        Vec::new()
    }
}

pub struct NoHook;
impl<P: Payload> Hook<P> for NoHook {}

fn push<T>(v: &mut Vec<Finding>, r: Result<T, Finding>) -> Option<T> {
    match r {
        Ok(x) => Some(x),
        Err(f) => {
            v.push(f);
            None
        }
    }
}

/// Runs this property's monitors after one step.
pub fn monitors<P: Payload>(ctx: &Ctx, st: &mut State<P>, info: &StepInfo<P>, heavy: bool, rng: &mut Rng, cov: &mut Cov, tok: bool) -> Vec<Finding> {
    let mut fs: Vec<Finding> = Vec::new();
    let mut obs = 0u64;
    let mut ran = false;
    // ---- raw monitors: allowed on any arena
    if ctx.is("C01") {
        ran = true;
        obs += push(&mut fs, mon::c01_wellformed(&st.arena)).unwrap_or(0);
    }
    if ctx.is("C02") {
        ran = true;
        let acyc = mon::c02_acyclic(&st.arena);
        let ok = acyc.is_ok();
        obs += push(&mut fs, acyc).unwrap_or(0);
        // library iterators are only started on a structure whose raw link walks all end (the cycle is
        // already reported then; an iterator constructor or a filtering next() may loop on it)
        if heavy && ok {
            // bounded library iterators; start nodes straight from the arena
            let starts = match guarded(|| mon::raw_live_ids(&st.arena)) {
                Ok(s) => s,
                Err(_) => Vec::new(),
            };
            let r = mon::c02_iterators_finite(&st.arena, &starts);
            // an iterator panic on an arena the model no longer follows is not judged here
            match r {
                Err(f) if info.diverged && f.sig.ends_with("/panic") && ok => {}
                r => obs += push(&mut fs, r).unwrap_or(0),
            }
            cov.add("iterator_runs", starts.len() as u64 * 11);
        }
    }
    if ctx.is("C10") && info.diverged && heavy {
        // the laws relate the two ends of one iterator to each other: judged against the iterator's
        // own forward sequence they need no model
        if mon::c02_acyclic(&st.arena).is_ok() {
            ran = true;
            let starts = guarded(|| mon::raw_live_ids(&st.arena)).unwrap_or_default();
            obs += push(&mut fs, mon::c10_double_ended_raw(&st.arena, &starts, rng)).unwrap_or(0);
            cov.bump("raw_law_checks_after_foreign_finding");
        }
    }
    if info.diverged {
        if ran {
            cov.evaluations += 1;
            cov.observations += obs;
        }
        return fs;
    }
    // ---- model-based monitors
    match ctx.prop {
        "C03" => {
            if matches!(info.op, Op::Ins { .. } | Op::Detach(_) | Op::AppendValue(_)) {
                ran = true;
                // the full link comparison of `step` is this property's main oracle
                obs += st.model.live_count() as u64 * 5;
                obs += push(&mut fs, mon::c03_extras(st, info)).unwrap_or(0);
            }
        }
        "C04" => {
            if matches!(info.op, Op::Remove(_) | Op::RemoveSubtree(_)) {
                ran = true;
                obs += st.model.slot_count() as u64 + st.model.live_count() as u64 * 5;
            }
        }
        "C05" => {
            ran = true;
            obs += 1;
            if let Op::Ins { .. } = info.op {
                obs += push(&mut fs, mon::c05_differential(st, info)).unwrap_or(0);
            }
        }
        "C06" => {
            ran = true;
            if heavy || info.new_h.is_some() || matches!(info.op, Op::Remove(_) | Op::RemoveSubtree(_)) {
                obs += push(&mut fs, mon::c06_history_ids(st)).unwrap_or(0);
            }
        }
        "C07" => {
            if info.new_h.is_some() {
                ran = true;
                obs += push(&mut fs, mon::c07_alloc(st, info)).unwrap_or(0);
            }
            if heavy {
                ran = true;
                obs += push(&mut fs, mon::c07_drain_probe(st)).unwrap_or(0);
                cov.bump("drain_probes");
                cov.maxi("free_slots_at_once", st.model.avail.len() as u64);
            }
        }
        "C08" => {
            ran = true;
            obs += push(&mut fs, mon::c08_payloads(st)).unwrap_or(0);
            if tok {
                obs += push(&mut fs, mon::c08_drops(&st.model, true)).unwrap_or(0);
            }
            if heavy && rng.chance(1, 6) {
                obs += push(&mut fs, mon::c08_clone_from_probe(st, rng)).unwrap_or(0);
                cov.bump("clone_from_probes");
            }
        }
        "C09" => {
            if heavy {
                ran = true;
                obs += push(&mut fs, mon::c09_traversals(st)).unwrap_or(0);
                for h in st.model.live_handles() {
                    cov.distinct.insert(mix2(st.model.forest_hash(), st.model.pos_hash(h)));
                    Cov::inc(&mut cov.node_classes, node_class(&st.model, h));
                }
            }
        }
        "C10" => {
            if heavy {
                ran = true;
                let mut stats = mon::C10Stats { patterns: 0, pulls: 0, classes: Vec::new() };
                obs += push(&mut fs, mon::c10_double_ended(st, rng, &mut stats)).unwrap_or(0);
                cov.add("pull_patterns", stats.patterns);
                cov.add("pulls", stats.pulls);
                for c in stats.classes {
                    Cov::inc(&mut cov.node_classes, c);
                }
                for h in st.model.live_handles() {
                    cov.distinct.insert(mix2(st.model.forest_hash(), st.model.pos_hash(h)));
                }
            }
        }
        "C11" => {
            if heavy || st.model.slot_count() <= 24 {
                ran = true;
                let mut foreign: Arena<P> = Arena::new();
                for k in 0..3 {
                    foreign.new_node(P::make(u64::MAX - 1, k));
                }
                obs += push(&mut fs, mon::c11_lookups(st, &foreign)).unwrap_or(0);
                let mut lay = Digest::default();
                for c in &st.model.slot_cur {
                    lay.u(c.map_or(2, |h| st.model.is_live(h) as u64));
                }
                cov.distinct.insert(lay.0);
            }
        }
        "C12" => {
            ran = true;
            obs += push(&mut fs, mon::c12_removed_isolated(st)).unwrap_or(0);
            let nrem = st.model.removed_unrecycled_handles().len() as u64;
            if nrem > 0 {
                cov.bump("boundaries_with_removed_unrecycled_slot");
                cov.maxi("removed_unrecycled_at_once", nrem);
                if heavy && rng.chance(1, 4) {
                    let n = push(&mut fs, mon::c12_probes(st, rng)).unwrap_or(0);
                    cov.add("refusal_probes", n);
                    obs += n;
                }
            }
        }
        _ => {}
    }
    if ran {
        cov.evaluations += 1;
        cov.observations += obs;
    }
    fs
}

fn account_step<P: Payload>(ctx: &Ctx, st: &State<P>, info: &StepInfo<P>, cov: &mut Cov) {
    cov.calls += 1;
    let kind = info.op.kind_name();
    Cov::inc(&mut cov.ops, kind.clone());
    Cov::inc(&mut cov.outcomes, format!("{}:{}", kind, match &info.outcome {
        Outcome::Ret(Ret::Res(Err(e))) => format!("Err({:?})", e),
        Outcome::Ret(Ret::Res(Ok(()))) => "Ok".into(),
        Outcome::Ret(Ret::Id(_)) => "id".into(),
        Outcome::Ret(Ret::Unit) => "ok".into(),
        Outcome::Panic(_) => "panic".into(),
    }));
    if let Outcome::Panic(p) = &info.outcome {
        // message without location details that vary
        let short: String = p.chars().take(70).collect();
        Cov::inc(&mut cov.panics, short);
    }
    let pm = &info.pre_model;
    match &info.op {
        Op::Ins { t, x, .. } => {
            Cov::inc(&mut cov.op_rel, format!("{}|{:?}", kind, info.rel));
            if pm.is_live(*t) && pm.parent(*t).is_none() && pm.siblings(*t).len() > 1 {
                cov.bump("insert_with_target_in_top_level_chain");
            }
            if pm.is_live(*x) && pm.recycles[pm.nodes[*x].slot] > 0 {
                cov.bump("insert_moving_node_in_recycled_slot");
            }
            if pm.is_live(*x) && *x + 1 == pm.nodes.len() && pm.recycles[pm.nodes[*x].slot] > 0 {
                cov.bump("move_right_after_slot_reuse");
            }
        }
        Op::Detach(x) | Op::Remove(x) | Op::RemoveSubtree(x) => {
            Cov::inc(&mut cov.node_classes, format!("{}|{}", kind, node_class(pm, *x)));
        }
        Op::AppendValue(p) => {
            if !pm.is_live(*p) {
                cov.bump("append_value_under_removed_parent");
            }
        }
        _ => {}
    }
    if info.new_h.is_some() && st.model.recycles[st.model.nodes[info.new_h.unwrap()].slot] > 0 {
        cov.bump("allocations_into_recycled_slot");
    }
    if info.refused {
        cov.bump("calls_refused");
    }
    // distinct non-trivial (shape, op, argument positions)
    let mutating_prop = !matches!(ctx.prop, "C09" | "C10" | "C11" | "C14");
    if mutating_prop && (info.changed || info.refused) {
        let mut k = mix2(pm.forest_hash(), crate::rng::mix(kind.len() as u64 ^ kind.bytes().fold(0u64, |a, b| a.wrapping_mul(131) ^ b as u64)));
        match &info.op {
            Op::Ins { t, x, .. } => {
                k = mix2(k, pm.pos_hash(*t));
                k = mix2(k, pm.pos_hash(*x));
            }
            Op::AppendValue(x) | Op::Detach(x) | Op::Remove(x) | Op::RemoveSubtree(x) | Op::Replace(x) | Op::Write(x, _) => {
                k = mix2(k, pm.pos_hash(*x));
            }
            _ => {}
        }
        k = mix2(k, pm.avail.len() as u64);
        cov.distinct.insert(k);
    }
    cov.maxi("slots", st.model.slot_count() as u64);
    cov.maxi("live_nodes", st.model.live_count() as u64);
}

fn shape_maxima<P: Payload>(st: &State<P>, cov: &mut Cov) {
    let m = &st.model;
    let mut depth = 0;
    let mut width = 0;
    for h in m.live_handles() {
        depth = depth.max(m.depth(h));
        width = width.max(m.children(h).len());
    }
    cov.maxi("depth", depth as u64);
    cov.maxi("children_of_one_node", width as u64);
    let chain = m.top_chains().iter().map(|l| l.items.len()).max().unwrap_or(0);
    cov.maxi("top_level_chain_length", chain as u64);
}

/// "A copy behaves like the original": `clone_from` the current arena into a destination that has a
/// history of its own (a scratch arena with pending free slots, or an older state of this very
/// history - same slots and stamps, different links), then run this property's monitors on the copy.
/// Only findings that name the property are returned; the main history is not affected.
pub fn copy_probe<P: Payload>(ctx: &Ctx, st: &State<P>, old: Option<&Arena<P>>, main_rng: &mut Rng, cov: &mut Cov, tok: bool) -> Vec<Finding> {
    // exactly one draw from the history's generator, whatever the feature set: the histories themselves
    // stay identical in every build
    let mut local = Rng::derive(main_rng.next_u64(), 77, 1);
    let rng = &mut local;
    let via_serde = cfg!(feature = "deser") && rng.chance(1, 3);
    let built = guarded(|| {
        #[cfg(feature = "deser")]
        if via_serde {
            // third kind of copy: through a serde round trip (self-describing or positional format)
            return if rng.chance(1, 2) {
                let s = serde_json::to_string(&st.arena).expect("serialize");
                serde_json::from_str::<Arena<P>>(&s).expect("deserialize")
            } else {
                let b = crate::posfmt::to_bytes(&st.arena).expect("serialize");
                crate::posfmt::from_bytes::<Arena<P>>(&b).expect("deserialize")
            };
        }
        let mut d: Arena<P> = match old {
            Some(o) if rng.chance(1, 2) => o.clone(),
            _ => {
                let mut d: Arena<P> = Arena::new();
                let k = rng.range(1, 2 * st.model.slot_count().max(2));
                let mut ids = Vec::new();
                for i in 0..k {
                    ids.push(d.new_node(P::make(u64::MAX - 9, i as u64)));
                }
                let mut nrem = rng.below(k + 1);
                while nrem > 0 && !ids.is_empty() {
                    let i = rng.below(ids.len());
                    ids.swap_remove(i).remove(&mut d);
                    nrem -= 1;
                }
                d
            }
        };
        d.clone_from(&st.arena);
        d
    });
    let d = match built {
        Ok(d) => d,
        Err(p) => {
            return if ctx.is("C13") && !via_serde { vec![Finding::new(&["C13"], "clone_from-copy/panic".into(), p)] } else { Vec::new() };
        }
    };
    if via_serde {
        cov.bump("serde_round_trip_copies_monitored");
    }
    let mut st2 = State {
        arena: d,
        model: st.model.clone(),
        issued: st.issued.clone(),
        steps: st.steps,
    };
    let mut dummy = st2.step(&Op::Reserve(0));
    let mut fs = dummy.findings.clone();
    // "the copy behaves like the original": this property's monitors judge the copy against the original's
    // model even if the copy already differs from it somewhere else (each monitor is panic-guarded)
    dummy.diverged = false;
    let mut scratch = Cov::default();
    fs.extend(monitors(ctx, &mut st2, &dummy, true, rng, &mut scratch, tok));
    if ctx.is("C02") && rng.chance(1, 2) && fs.iter().all(|f| !ctx.owns(f)) {
        // the copy also has to stay acyclic under further valid calls: a short hostile continuation on it,
        // judged by the raw monitors only (the model is an argument source)
        let mut gen = Gen::new(GenCfg::small(), if rng.chance(1, 2) { Persona::Shuffle } else { Persona::Deep });
        for _ in 0..8 {
            if !liveness_agrees(&st2) {
                break;
            }
            let op = gen.next_op(rng, &st2.model);
            let info = st2.step(&op);
            // bounded raw link walks only (cheap); they run before anything could follow a cycle
            let more = monitors(ctx, &mut st2, &info, false, rng, &mut scratch, tok);
            let own: Vec<Finding> = more.into_iter().filter(|f| ctx.owns(f) && !f.sig.starts_with("model/") && !f.sig.starts_with("outcome/")).collect();
            if !own.is_empty() {
                fs.extend(own.into_iter().map(|mut f| {
                    f.detail = format!("{} [after `{}` applied to the copy]", f.detail, op.to_text());
                    f
                }));
                break;
            }
        }
    }
    cov.bump("clone_from_copies_monitored");
    cov.observations += scratch.observations;
    fs.into_iter()
        .filter(|f| ctx.owns(f))
        .map(|mut f| {
            if via_serde {
                f.sig = format!("serde-copy/{}", f.sig);
                f.detail = format!("on a copy made by a serde round trip: {}", f.detail);
            } else {
                f.sig = format!("clone_from-copy/{}", f.sig);
                f.detail = format!("on a copy made with clone_from into a used arena: {}", f.detail);
            }
            f
        })
        .collect()
}

pub struct HistOut {
    pub violation: Option<Violation>,
    pub digest: Digest,
    pub ops: Vec<Op>,
}

/// Decide on the findings of one step: Some(violation) / abandon flag
fn judge(ctx: &Ctx, fs: &[Finding], cov: &mut Cov, workload: &str, step: usize, ops: &[Op]) -> (Option<Violation>, bool) {
    if fs.is_empty() {
        return (None, false);
    }
    if let Some(f) = fs.iter().find(|f| ctx.owns(f)) {
        return (
            Some(Violation {
                prop: ctx.prop.to_string(),
                sig: f.sig.clone(),
                detail: f.detail.clone(),
                workload: workload.to_string(),
                step,
                ops: ops.to_vec(),
            }),
            true,
        );
    }
    let f = &fs[0];
    Cov::inc(&mut cov.abandoned, format!("{} [{}]", f.props.join("+"), f.sig));
    (None, true)
}

/// slot-level agreement between arena and model: the ids the model hands out as arguments are valid
fn liveness_agrees<P: Payload>(st: &State<P>) -> bool {
    guarded(|| {
        let m = &st.model;
        if st.arena.count() != m.slot_count() {
            return false;
        }
        let s = st.arena.as_slice();
        m.slot_cur.iter().enumerate().all(|(i, c)| s[i].is_removed() != c.map_or(false, |h| m.is_live(h)))
    })
    .unwrap_or(false)
}

pub struct W1Cfg {
    pub size: Size,
    pub len: usize,
    pub gen: GenCfg,
    pub tok: bool,
    pub sample: bool,
}

/// One W1 history.
pub fn run_w1<P: Payload>(ctx: &Ctx, cfg: &W1Cfg, index: u64, cov: &mut Cov, hook: &mut dyn Hook<P>) -> HistOut {
    let tag = match cfg.size {
        Size::Small => 1,
        Size::Large => 2,
    };
    let mut rng = Rng::derive(ctx.seed, tag, index);
    let persona = PERSONAS[(index % PERSONAS.len() as u64) as usize];
    // storage capacity at creation varies, so that buffer growth happens at different points of a history
    let cap0 = match rng.below(4) {
        0 => 0,
        1 => rng.below(6),
        2 => rng.below(40),
        _ => rng.below(300),
    };
    // every 29th small history starts on an arena with a worn-out slot
    let worn: u32 = if cfg.size == Size::Small && index % 29 == 13 {
        let base = [124u32, 252, 16_380, 32_758][rng.below(4)];
        base + rng.below(10) as u32
    } else {
        0
    };
    // every 23rd large history starts by building a BALLAST forest of hundreds or thousands of nodes (with
    // modelled calls, monitors off), so that the calls that follow act on an arena far above any small threshold
    let ballast: usize = if cfg.size == Size::Large && index % 23 == 5 {
        let sizes: [usize; 5] = if ctx.is("C02") { [258, 260, 300, 300, 520] } else { [258, 300, 520, 1100, 2100] };
        sizes[rng.below(5)] + rng.below(20)
    } else {
        0
    };
    let mut ballast_ops: Vec<Op> = Vec::new();
    if ballast > 0 {
        let mut made = 0usize;
        while made < ballast {
            if made == 0 || rng.chance(1, 40) {
                ballast_ops.push(Op::New); // another root
            } else {
                let p = if rng.chance(1, 2) { made - 1 - rng.below(made.min(6)) } else { rng.below(made) };
                if rng.chance(3, 4) {
                    ballast_ops.push(Op::AppendValue(p));
                } else {
                    ballast_ops.push(Op::New);
                    ballast_ops.push(Op::Ins { kind: if rng.chance(1, 2) { InsKind::Prepend } else { InsKind::After }, checked: rng.chance(1, 2), t: if p == 0 { made - 1 } else { p }, x: made });
                }
            }
            made += 1;
        }
        cov.bump("histories_on_top_of_a_ballast_forest");
        cov.maxi("largest_ballast_forest_nodes", ballast as u64);
    }
    let nb = ballast_ops.len();
    let workload = format!("w1-{}-{}-{:?}-worn{}-cap{}", if tag == 1 { "small" } else { "large" }, index, persona, worn, cap0);
    let mut gen = Gen::new(cfg.gen.clone(), persona);
    if ballast > 0 {
        gen.cfg.max_live += ballast;
        gen.cfg.max_slots += ballast;
    }
    let mut st: State<P> = if worn > 0 {
        cov.bump("histories_started_on_an_arena_with_a_worn_slot");
        let mut prime_rng = Rng::derive(ctx.seed, 71, index);
        State::primed_worn(&mut prime_rng, worn, cap0)
    } else {
        State::with_arena(if cap0 == 0 { Arena::new() } else { Arena::with_capacity(cap0) })
    };
    let mut ops: Vec<Op> = Vec::new();
    let mut digest = Digest::default();
    let len = match cfg.size {
        Size::Small => rng.range(cfg.len / 3, cfg.len),
        Size::Large if ballast > 0 => nb + rng.range(30, 110),
        Size::Large => rng.range(cfg.len / 2, cfg.len),
    };
    cov.histories += 1;
    Cov::inc(&mut cov.personas, format!("{:?}", persona));
    if cfg.tok {
        crate::payload::drops_reset();
    }
    {
        let mut c = ctx.beacon.current.lock().unwrap();
        c.0 = workload.clone();
        c.1.clear();
    }
    let mut violation = None;
    let mut outcome_log: Vec<String> = Vec::new();
    let raw_prop = ctx.is("C01") || ctx.is("C02") || ctx.is("C10");
    let mut blind = false;
    let mut blind_steps = 0usize;
    let mut old_arena: Option<Arena<P>> = None;
    for step in 0..len {
        let in_ballast = step < nb;
        let op = if in_ballast { ballast_ops[step].clone() } else { gen.next_op(&mut rng, &st.model) };
        ops.push(op.clone());
        ctx.beacon.current.lock().unwrap().1.push(op.clone());
        ctx.beacon.tick.fetch_add(1, Ordering::Relaxed);
        let info = st.step(&op);
        account_step(ctx, &st, &info, cov);
        digest.s(&info.outcome.text());
        if !in_ballast || step + 1 == nb {
            st.structure_digest(&mut digest);
        }
        if cfg.sample {
            outcome_log.push(format!("{} -> {}", op.to_text(), info.outcome.text()));
        }
        let heavy = !in_ballast
            && ((ctx.always_heavy && ballast == 0)
                || match cfg.size {
                    Size::Small => true,
                    Size::Large => step % 8 == 7 || step + 1 == len,
                });
        let mut fs = info.findings.clone();
        if !in_ballast {
            fs.extend(monitors(ctx, &mut st, &info, heavy, &mut rng, cov, cfg.tok));
            if !info.diverged {
                fs.extend(hook.after_step(ctx, &mut st, &info, heavy, &mut rng, cov));
            }
        }
        if !info.diverged && !blind && heavy && rng.chance(1, 10) && !matches!(ctx.prop, "C03" | "C04" | "C05" | "C14" | "C16" | "C17") {
            fs.extend(copy_probe(ctx, &st, old_arena.as_ref(), &mut rng, cov, cfg.tok));
        }
        if step % 6 == 0 && !info.diverged {
            old_arena = Some(st.arena.clone());
        }
        if blind {
            // only this property's raw monitors are judged; the model is merely an argument source now
            if let Some(f) = fs.iter().find(|f| ctx.owns(f) && !f.sig.starts_with("model/") && !f.sig.starts_with("outcome/")) {
                violation = Some(Violation {
                    prop: ctx.prop.to_string(),
                    sig: f.sig.clone(),
                    detail: format!("{} [observed {} calls after an earlier finding that belongs to another property]", f.detail, blind_steps),
                    workload: workload.clone(),
                    step,
                    ops: ops.clone(),
                });
                break;
            }
            blind_steps += 1;
            cov.bump("calls_continued_after_foreign_finding");
            if blind_steps > 60 || !liveness_agrees(&st) || step + 1 == len {
                break;
            }
            // only C02 is about calls that never return: the other checks do not walk on into a
            // structure on which a library call may hang
            if !ctx.is("C02") && (mon::c02_acyclic(&st.arena).is_err() || mon::c01_wellformed(&st.arena).is_err()) {
                break;
            }
            continue;
        }
        let (v, stop) = judge(ctx, &fs, cov, &workload, step, &ops);
        if v.is_some() {
            violation = v;
        }
        let safe_to_go_on = ctx.is("C02") || (mon::c02_acyclic(&st.arena).is_ok() && mon::c01_wellformed(&st.arena).is_ok());
        if (stop || info.diverged) && violation.is_none() && raw_prop && safe_to_go_on && liveness_agrees(&st) && step + 1 < len {
            // C01 / C02 quantify over every sequence of valid calls: a structure that another
            // property's monitor already rejected may still turn into a cycle / ill-formed links later
            blind = true;
            continue;
        }
        if stop || info.diverged {
            break;
        }
        if step + 1 == len {
            shape_maxima(&st, cov);
            let fs = hook.at_end(ctx, &mut st, &mut rng, cov);
            let (v, _) = judge(ctx, &fs, cov, &workload, step, &ops);
            violation = v;
        }
    }
    if cfg.tok && violation.is_none() {
        // arena dropped: every payload dropped exactly once by now
        let model = st.model.clone();
        drop(st);
        if ctx.is("C08") {
            if let Err(f) = mon::c08_drops(&model, false) {
                violation = Some(Violation {
                    prop: ctx.prop.to_string(),
                    sig: format!("{}-after-arena-drop", f.sig),
                    detail: f.detail,
                    workload: workload.clone(),
                    step: ops.len(),
                    ops: ops.clone(),
                });
            } else {
                cov.bump("arena_drops_checked");
            }
        }
    }
    if cfg.sample && cov.samples.len() < 3 {
        cov.samples.push(J::obj(vec![
            ("workload", J::s(workload.clone())),
            ("history", J::A(outcome_log.iter().take(40).map(|s| J::s(s.clone())).collect())),
            ("steps", J::U(ops.len() as u64)),
        ]));
    }
    HistOut { violation, digest, ops }
}

// ======================================================================= W2

#[derive(Clone, Copy, Debug, PartialEq, Eq)]
pub enum Variant {
    Plain,
    /// a removed, not recycled slot created after building
    RemovedAfter,
    /// the first slot removed at the end (it was a bystander root)
    RemovedFirst,
    /// slot 1 recycled before building
    RecycledRoot,
}

pub const VARIANTS: [Variant; 4] = [Variant::Plain, Variant::RemovedAfter, Variant::RemovedFirst, Variant::RecycledRoot];

pub fn w2_build_ops(shape: &Shape, forward: bool, variant: Variant) -> Vec<Op> {
    let mut next = 0usize;
    let mut ops = Vec::new();
    match variant {
        Variant::RecycledRoot => {
            ops.push(Op::New);
            ops.push(Op::Remove(0));
            next = 1;
        }
        Variant::RemovedFirst => {
            ops.push(Op::New);
            next = 1;
        }
        _ => {}
    }
    ops.extend(build_ops(shape, forward, &mut next));
    match variant {
        Variant::RemovedAfter => {
            ops.push(Op::New);
            ops.push(Op::Remove(next));
        }
        Variant::RemovedFirst => ops.push(Op::Remove(0)),
        _ => {}
    }
    ops
}

/// All operations with all ordered argument pairs on one built shape.
pub fn run_w2_item<P: Payload>(ctx: &Ctx, shape: &Shape, forward: bool, variant: Variant, depth2: bool, cov: &mut Cov, hook_each: &mut dyn FnMut(&Ctx, &mut State<P>, &mut Rng, &mut Cov) -> Vec<Finding>) -> Option<Violation> {
    let workload = format!("w2-{}-{}-{:?}", render_shape(shape), if forward { "fwd" } else { "bwd" }, variant);
    let mut rng = Rng::derive(ctx.seed, 3, shape.len() as u64);
    let build = w2_build_ops(shape, forward, variant);
    let mut st: State<P> = State::new();
    cov.histories += 1;
    {
        let mut c = ctx.beacon.current.lock().unwrap();
        c.0 = workload.clone();
        c.1.clear();
    }
    let mut ops: Vec<Op> = Vec::new();
    for op in &build {
        ops.push(op.clone());
        ctx.beacon.current.lock().unwrap().1.push(op.clone());
        ctx.beacon.tick.fetch_add(1, Ordering::Relaxed);
        let info = st.step(op);
        account_step(ctx, &st, &info, cov);
        let mut fs = info.findings.clone();
        fs.extend(monitors(ctx, &mut st, &info, false, &mut rng, cov, false));
        let (v, stop) = judge(ctx, &fs, cov, &workload, ops.len() - 1, &ops);
        if v.is_some() {
            return v;
        }
        if stop || info.diverged {
            return None;
        }
    }
    // read-only monitors on the built shape itself
    {
        let fs = hook_each(ctx, &mut st, &mut rng, cov);
        let (v, stop) = judge(ctx, &fs, cov, &workload, ops.len(), &ops);
        if v.is_some() || stop {
            return v;
        }
    }
    if matches!(ctx.prop, "C09" | "C10" | "C11" | "C14") {
        // read-only properties: monitors on the shape are the whole job
        let info_free_heavy = true;
        let dummy = st.step(&Op::Reserve(0));
        let fs = monitors(ctx, &mut st, &dummy, info_free_heavy, &mut rng, cov, false);
        let (v, _) = judge(ctx, &fs, cov, &workload, ops.len(), &ops);
        return v;
    }
    let handles: Vec<H> = st.model.epoch_handles().filter(|h| st.model.is_live(*h) || st.model.is_removed_unrecycled(*h)).collect();
    let mut trial: Vec<Op> = Vec::new();
    for &t in &handles {
        for &x in &handles {
            for kind in INS_KINDS {
                for checked in [true, false] {
                    trial.push(Op::Ins { kind, checked, t, x });
                }
            }
        }
        if st.model.is_live(t) {
            trial.push(Op::Detach(t));
            trial.push(Op::Remove(t));
            trial.push(Op::RemoveSubtree(t));
        }
        trial.push(Op::AppendValue(t));
    }
    trial.push(Op::New);
    let trial2 = if depth2 { trial.clone() } else { Vec::new() };
    for op in trial {
        let mut s2 = st.clone();
        ctx.beacon.tick.fetch_add(1, Ordering::Relaxed);
        {
            let mut c = ctx.beacon.current.lock().unwrap();
            c.1.truncate(build.len());
            c.1.push(op.clone());
        }
        let info = s2.step(&op);
        account_step(ctx, &s2, &info, cov);
        let mut fs = info.findings.clone();
        fs.extend(monitors(ctx, &mut s2, &info, true, &mut rng, cov, false));
        let mut all = ops.clone();
        all.push(op.clone());
        let (v, stop) = judge(ctx, &fs, cov, &workload, all.len() - 1, &all);
        if v.is_some() {
            return v;
        }
        // depth 2: every operation with every ordered pair again, on the state the first one left
        if depth2 && !stop && !info.diverged && (info.changed || info.new_h.is_some()) {
            let mut second = trial2.clone();
            if let Some(nh) = info.new_h {
                // the node the first operation created takes part as well
                for &y in &handles {
                    for kind in INS_KINDS {
                        second.push(Op::Ins { kind, checked: true, t: nh, x: y });
                        second.push(Op::Ins { kind, checked: false, t: y, x: nh });
                    }
                }
                second.push(Op::Remove(nh));
                second.push(Op::AppendValue(nh));
            }
            for op2 in second {
                // arguments must still be in the call domain after the first operation
                let ok = match &op2 {
                    Op::Detach(x) | Op::Remove(x) | Op::RemoveSubtree(x) => s2.model.is_live(*x),
                    Op::Ins { t, x, .. } => [*t, *x].iter().all(|h| s2.model.is_live(*h) || s2.model.is_removed_unrecycled(*h)),
                    Op::AppendValue(x) => s2.model.is_live(*x) || s2.model.is_removed_unrecycled(*x),
                    _ => true,
                };
                if !ok {
                    continue;
                }
                let mut s3 = s2.clone();
                ctx.beacon.tick.fetch_add(1, Ordering::Relaxed);
                {
                    let mut c = ctx.beacon.current.lock().unwrap();
                    c.1.truncate(build.len() + 1);
                    c.1.push(op2.clone());
                }
                let info2 = s3.step(&op2);
                account_step(ctx, &s3, &info2, cov);
                let mut fs = info2.findings.clone();
                fs.extend(monitors(ctx, &mut s3, &info2, true, &mut rng, cov, false));
                let mut all2 = all.clone();
                all2.push(op2.clone());
                let (v, _) = judge(ctx, &fs, cov, &workload, all2.len() - 1, &all2);
                if v.is_some() {
                    return v;
                }
                cov.bump("w2_depth2_operation_pairs");
            }
        }
    }
    cov.bump("w2_shapes_swept");
    None
}

pub fn w2_items(max_n: usize) -> Vec<Shape> {
    let e = Enumerator::new(max_n);
    let mut v = Vec::new();
    for n in 1..=max_n {
        v.extend(e.shapes(n));
    }
    v
}

// ======================================================================= W3

/// Generation churn: recycle few slots tens of thousands of times.
/// Light-weight bookkeeping (no per-step clones) so that 10^5 cycles are cheap.
pub fn run_w3(ctx: &Ctx, nslots: usize, cycles: u64, mode: u8, cov: &mut Cov) -> Option<Violation> {
    // mode 0: plain ping-pong, 1: + remove_subtree bursts, 2: + rotating fresh companion slots (two removes),
    // 3: fresh companions and the worn-out node freed by one remove_subtree call
    if mode == 4 {
        return run_w3_clear(ctx, nslots, cycles, cov);
    }
    if mode == 5 {
        return run_c17_sizes(ctx, nslots, cov);
    }
    let with_subtrees = mode == 1;
    let companions = mode == 2 || mode == 3;
    use crate::payload::Plain;
    use indextree::NodeId;
    let workload = format!("w3-{}slots-{}cycles{}", nslots, cycles, match mode { 1 => "-subtree", 2 => "-companions", 3 => "-companions-subtree", _ => "" });
    let mut rng = Rng::derive(ctx.seed, 4, nslots as u64 * 1000 + cycles);
    let mut arena: Arena<Plain> = Arena::new();
    // (id, slot, removed)
    let mut hist: Vec<(NodeId, usize, bool)> = Vec::new();
    let mut issued: HashSet<NodeId> = HashSet::new();
    let mut recycles: Vec<u32> = Vec::new();
    let mut retired: HashSet<usize> = HashSet::new();
    cov.histories += 1;
    {
        let mut c = ctx.beacon.current.lock().unwrap();
        c.0 = workload.clone();
        c.1.clear();
    }
    let viol = |sig: &str, detail: String, cyc: u64| {
        Some(Violation {
            prop: ctx.prop.to_string(),
            sig: format!("churn/{}", sig),
            detail: format!("{} (cycle {}, workload {})", detail, cyc, workload),
            workload: format!("{}@{}", workload, cyc),
            step: cyc as usize,
            ops: Vec::new(),
        })
    };
    let own6 = ctx.is("C06");
    let own7 = ctx.is("C07");
    // a bystander that must never change
    let by = arena.new_node(Plain { tid: 999_999, val: 7 });
    let by_child = by.append_value(Plain { tid: 999_998, val: 8 }, &mut arena);
    hist.push((by, 0, false));
    hist.push((by_child, 1, false));
    issued.insert(by);
    issued.insert(by_child);
    recycles.extend([0, 0]);
    let mut cur: Vec<usize> = Vec::new(); // indices into hist of the churned live nodes
    let mut tid = 0u64;
    let mut alloc = |arena: &mut Arena<Plain>, parent: Option<NodeId>, hist: &mut Vec<(NodeId, usize, bool)>, issued: &mut HashSet<NodeId>, recycles: &mut Vec<u32>, retired: &mut HashSet<usize>, free: &mut Vec<usize>, cyc: u64| -> Result<usize, Option<Violation>> {
        tid += 1;
        let before = arena.count();
        let r = guarded(|| match parent {
            Some(p) => p.append_value(Plain { tid, val: tid }, arena),
            None => arena.new_node(Plain { tid, val: tid }),
        });
        let id = match r {
            Ok(id) => id,
            Err(p) => return Err(viol("alloc-panic", format!("allocation panicked: {}", p), cyc)),
        };
        let slot = usize::from(id) - 1;
        if !issued.insert(id) && own6 {
            return Err(viol("id-reissued", format!("allocation returned id {:?} (slot {}) which was already issued earlier; slot re-issued {} times", id, slot + 1, recycles.get(slot).copied().unwrap_or(0)), cyc));
        }
        if own7 {
            if let Some(k) = free.iter().position(|s| *s == slot) {
                free.swap_remove(k);
                if arena.count() != before {
                    return Err(viol("grew-while-recycling", format!("slot {} recycled but count() {} -> {}", slot + 1, before, arena.count()), cyc));
                }
            } else if slot == before && arena.count() == before + 1 {
                // growth: allowed only if every free slot is beyond the retirement threshold
                if let Some(s) = free.iter().find(|s| recycles[**s] < mon::RETIRE_MIN_RECYCLES) {
                    return Err(viol("grew-with-free-slot", format!("arena grew to {} although slot {} (re-issued {} times) was free", arena.count(), s + 1, recycles[*s]), cyc));
                }
                for s in free.drain(..) {
                    retired.insert(s);
                }
            } else {
                return Err(viol("occupied-or-bogus-slot", format!("new node at position {} (count {} -> {}), free slots {:?}", slot + 1, before, arena.count(), free), cyc));
            }
        } else if let Some(k) = free.iter().position(|s| *s == slot) {
            free.swap_remove(k);
        } else {
            for s in free.drain(..) {
                retired.insert(s);
            }
        }
        if slot < recycles.len() {
            recycles[slot] += 1;
        } else {
            while recycles.len() <= slot {
                recycles.push(0);
            }
        }
        hist.push((id, slot, false));
        Ok(hist.len() - 1)
    };
    let mut free: Vec<usize> = Vec::new();
    for _ in 0..nslots {
        match alloc(&mut arena, None, &mut hist, &mut issued, &mut recycles, &mut retired, &mut free, 0) {
            Ok(i) => cur.push(i),
            Err(v) => return v,
        }
    }
    // rotating companions: slots that are recycled only rarely, so that a worn-out slot and a
    // fresh free slot are on the free list at the same time
    const NCOMP: usize = 3000;
    let mut comp: Vec<usize> = Vec::new();
    if companions {
        for _ in 0..NCOMP {
            match alloc(&mut arena, None, &mut hist, &mut issued, &mut recycles, &mut retired, &mut free, 0) {
                Ok(i) => comp.push(i),
                Err(v) => return v,
            }
        }
    }
    let check_ids = |arena: &Arena<Plain>, hist: &Vec<(NodeId, usize, bool)>, idxs: &mut dyn Iterator<Item = usize>, cyc: u64, recycles: &Vec<u32>| -> Option<Violation> {
        for i in idxs {
            let (id, slot, removed) = hist[i];
            let got = match guarded(|| id.is_removed(arena)) {
                Ok(g) => g,
                Err(p) => return viol("is_removed-panic", p, cyc),
            };
            if got != removed {
                return viol(
                    if removed { "old-id-reports-live" } else { "live-id-reports-removed" },
                    format!("id #{} of slot {} ({:?}): is_removed() = {} but the node {}; slot re-issued {} times so far", i, slot + 1, id, got, if removed { "was removed" } else { "is live" }, recycles[slot]),
                    cyc,
                );
            }
        }
        None
    };
    let mut evals = 0u64;
    // C17: what the churn makes observable (where each new node lands, how the arena grows) as a digest
    let mut churn_digest = Digest::default();
    for cyc in 1..=cycles {
        ctx.beacon.tick.fetch_add(1, Ordering::Relaxed);
        let k = (cyc as usize) % cur.len();
        if ctx.is("C17") {
            let last = hist.len() - 1;
            churn_digest.u(hist[last].1 as u64);
            churn_digest.u(arena.count() as u64);
            if cyc % 257 == 0 {
                churn_digest.s(&format!("{:?}", hist[last].0));
            }
        }
        if with_subtrees && cur.len() >= 3 && cyc % 3 == 0 {
            // chain the churned nodes into one tree and free them all in one call
            let ids: Vec<NodeId> = cur.iter().map(|i| hist[*i].0).collect();
            let r = guarded(|| {
                for w in ids.windows(2) {
                    w[0].append(w[1], &mut arena);
                }
                ids[0].remove_subtree(&mut arena);
            });
            if let Err(p) = r {
                return viol("remove_subtree-panic", p, cyc);
            }
            for i in &cur {
                hist[*i].2 = true;
                if !retired.contains(&hist[*i].1) {
                    free.push(hist[*i].1);
                }
            }
            let n = cur.len();
            cur.clear();
            for _ in 0..n {
                match alloc(&mut arena, None, &mut hist, &mut issued, &mut recycles, &mut retired, &mut free, cyc) {
                    Ok(i) => cur.push(i),
                    Err(v) => return v,
                }
            }
        } else if mode == 3 {
            // one remove_subtree call frees [fresh companion, worn-out node, fresh companion] in pre-order
            let j = (cyc as usize / 2) % (comp.len() - 2);
            let (c1, c2, c3, w) = (comp[j], comp[j + 1], comp[j + 2], cur[k]);
            let worn_slot = hist[w].1;
            let (i1, i2, i3, iw) = (hist[c1].0, hist[c2].0, hist[c3].0, hist[w].0);
            // c1 -> [c2, w], w -> [c3]: the worn-out node has a previous sibling and a child
            let r = guarded(|| {
                i1.append(i2, &mut arena);
                i1.append(iw, &mut arena);
                iw.append(i3, &mut arena);
                i1.remove_subtree(&mut arena);
            });
            if let Err(p) = r {
                return viol("remove_subtree-panic", p, cyc);
            }
            if ctx.is("C12") {
                for (name, id) in [("subtree root", i1), ("first child", i2), ("worn-out second child", iw), ("grandchild", i3)] {
                    let n = &arena[id];
                    let links = [n.parent(), n.previous_sibling(), n.next_sibling(), n.first_child(), n.last_child()];
                    if !n.is_removed() || links.iter().any(|l| l.is_some()) {
                        return viol("removed-keeps-links", format!("after remove_subtree the {} (slot {}, re-issued {} times) reports removed = {} and links {:?}", name, usize::from(id), recycles[usize::from(id) - 1], n.is_removed(), links.iter().map(|l| l.map(usize::from)).collect::<Vec<_>>()), cyc);
                    }
                }
                evals += 20;
            }
            for i in [c1, c2, w, c3] {
                hist[i].2 = true;
                if !retired.contains(&hist[i].1) {
                    free.push(hist[i].1);
                }
            }
            let mut got = Vec::new();
            for _ in 0..4 {
                match alloc(&mut arena, None, &mut hist, &mut issued, &mut recycles, &mut retired, &mut free, cyc) {
                    Ok(i) => got.push(i),
                    Err(v) => return v,
                }
            }
            if let Some(pos) = got.iter().position(|g| hist[*g].1 == worn_slot) {
                got.swap(0, pos);
            }
            cur[k] = got[0];
            comp[j] = got[1];
            comp[j + 1] = got[2];
            comp[j + 2] = got[3];
        } else if companions {
            // free the churned node and one rarely used companion (order alternates), then allocate twice
            let j = (cyc as usize / 2) % comp.len();
            let (first, second) = if cyc % 2 == 0 { (cur[k], comp[j]) } else { (comp[j], cur[k]) };
            let worn_slot = hist[cur[k]].1;
            for i in [first, second] {
                let id = hist[i].0;
                if let Err(p) = guarded(|| id.remove(&mut arena)) {
                    return viol("remove-panic", p, cyc);
                }
                hist[i].2 = true;
                free.push(hist[i].1);
            }
            let mut got = Vec::new();
            for _ in 0..2 {
                match alloc(&mut arena, None, &mut hist, &mut issued, &mut recycles, &mut retired, &mut free, cyc) {
                    Ok(i) => got.push(i),
                    Err(v) => return v,
                }
            }
            // keep churning the same storage slot as long as it is handed out
            if hist[got[1]].1 == worn_slot {
                got.swap(0, 1);
            }
            cur[k] = got[0];
            comp[j] = got[1];
        } else {
            let i = cur[k];
            let id = hist[i].0;
            if let Err(p) = guarded(|| id.remove(&mut arena)) {
                return viol("remove-panic", p, cyc);
            }
            hist[i].2 = true;
            free.push(hist[i].1);
            let parent = if rng.chance(1, 4) { Some(by) } else { None };
            match alloc(&mut arena, parent, &mut hist, &mut issued, &mut recycles, &mut retired, &mut free, cyc) {
                Ok(j) => cur[k] = j,
                Err(v) => return v,
            }
            if parent.is_some() {
                // keep the bystander's child list short: detach it again
                let nid = hist[cur[k]].0;
                if let Err(p) = guarded(|| nid.detach(&mut arena)) {
                    return viol("detach-panic", p, cyc);
                }
            }
        }
        if own6 {
            let window = {
                let r = cyc % 32768;
                let q = cyc / 32768;
                (q >= 1 && r <= 16 * cur.len() as u64 + 16) || r >= 32768 - 16 * cur.len() as u64 - 16
            };
            let n = hist.len();
            let v = if cyc % 4096 == 0 || window || cyc == cycles {
                evals += n as u64;
                check_ids(&arena, &hist, &mut (0..n), cyc, &recycles)
            } else {
                let mut idx: Vec<usize> = (n.saturating_sub(6)..n).collect();
                for _ in 0..16 {
                    idx.push(rng.below(n));
                }
                evals += idx.len() as u64;
                check_ids(&arena, &hist, &mut idx.into_iter(), cyc, &recycles)
            };
            if v.is_some() {
                return v;
            }
        }
        if ctx.is("C11") {
            let r = cyc % 32768;
            if cyc % 2048 == 0 || cyc == cycles || r <= 48 || r >= 32768 - 8 {
                let mut live_at: std::collections::HashMap<usize, NodeId> = std::collections::HashMap::new();
                for (id, slot, removed) in hist.iter() {
                    if !*removed {
                        live_at.insert(*slot, *id);
                    }
                }
                let res = guarded(|| {
                    for slot in 0..arena.count() {
                        let at = arena.get_node_id_at(std::num::NonZeroUsize::new(slot + 1).unwrap());
                        let exp = live_at.get(&slot).copied();
                        if at != exp {
                            return Some(format!("get_node_id_at({}) = {:?}, expected {:?} (slot re-issued {} times, {} slots retired so far)", slot + 1, at, exp, recycles[slot], retired.len()));
                        }
                        if let Some(id) = exp {
                            if arena.get_node_id(&arena.as_slice()[slot]) != Some(id) || arena.get(id).map(|n| n as *const _) != Some(&arena.as_slice()[slot] as *const _) {
                                return Some(format!("lookup paths disagree for the live node at position {}", slot + 1));
                            }
                        }
                    }
                    None
                });
                match res {
                    Ok(None) => evals += arena.count() as u64,
                    Ok(Some(d)) => return viol("lookup-in-churn", d, cyc),
                    Err(p) => return viol("lookup-in-churn-panic", p, cyc),
                }
                cov.bump("lookup_sweeps_in_generation_churn");
            }
        }
        #[cfg(feature = "deser")]
        if ctx.is("C16") {
            let r = cyc % 32768;
            let near_wrap = r <= 40 || r >= 32768 - 40;
            if cyc % 1024 == 0 || near_wrap {
                for fmt in ["json", "positional"] {
                    let rt = guarded(|| -> Result<Arena<Plain>, String> {
                        if fmt == "json" {
                            let s = serde_json::to_string(&arena).map_err(|e| e.to_string())?;
                            serde_json::from_str(&s).map_err(|e| e.to_string())
                        } else {
                            let b = crate::posfmt::to_bytes(&arena).map_err(|e| e.to_string())?;
                            crate::posfmt::from_bytes(&b).map_err(|e| e.to_string())
                        }
                    });
                    let copy = match rt {
                        Ok(Ok(c)) => c,
                        Ok(Err(e)) => return viol(&format!("serde-{}-error", fmt), e, cyc),
                        Err(p) => return viol(&format!("serde-{}-panic", fmt), p, cyc),
                    };
                    if copy != arena {
                        return viol(&format!("serde-{}-not-equal", fmt), format!("round trip of an arena whose slot was re-issued {} times is not equal to the original", recycles[hist[cur[k]].1]), cyc);
                    }
                    // every id ever issued behaves the same on the copy (sampled), then a common continuation
                    let n = hist.len();
                    for i in (0..n).step_by((n / 64).max(1)).chain(n.saturating_sub(4)..n) {
                        let id = hist[i].0;
                        if id.is_removed(&copy) != id.is_removed(&arena) {
                            return viol(&format!("serde-{}-is_removed", fmt), format!("is_removed of id #{} differs on the round-tripped copy", i), cyc);
                        }
                    }
                    let mut a2 = arena.clone();
                    let mut b2 = copy;
                    let mut x = hist[cur[k]].0;
                    for step in 0..4 {
                        let r = guarded(|| {
                            x.remove(&mut a2);
                            x.remove(&mut b2);
                            let na = a2.new_node(Plain { tid: 77, val: step });
                            let nb = b2.new_node(Plain { tid: 77, val: step });
                            (na, nb)
                        });
                        match r {
                            Ok((na, nb)) => {
                                if na != nb || a2 != b2 {
                                    return viol(&format!("serde-{}-continuation", fmt), format!("original and round-tripped copy diverge under a common continuation (ids {:?} vs {:?})", na, nb), cyc);
                                }
                                x = na;
                            }
                            Err(p) => return viol(&format!("serde-{}-continuation-panic", fmt), p, cyc),
                        }
                    }
                    evals += 6;
                }
                cov.bump("round_trips_in_generation_churn");
            }
        }
        if own7 {
            evals += 1;
            // bystanders untouched
            if arena[by].get().val != 7 || arena[by_child].get().val != 8 || arena[by].first_child() != Some(by_child) || arena[by].last_child() != Some(by_child) {
                return viol("bystander-changed", "the bystander tree changed during churn".into(), cyc);
            }
        }
        cov.distinct.insert(mix2(recycles[hist[cur[k]].1] as u64, (k as u64) << 40 | mode as u64));
    }
    if ctx.is("C17") {
        churn_digest.u(arena.count() as u64);
        cov.digests.push((workload.clone(), churn_digest.hex()));
        evals += cycles;
    }
    cov.calls += cycles * 2;
    cov.evaluations += cycles;
    cov.observations += evals;
    cov.add("churn_cycles", cycles);
    cov.maxi("recycles_of_one_slot", recycles.iter().copied().max().unwrap_or(0) as u64);
    cov.add("slots_retired", retired.len() as u64);
    cov.add("ids_issued_in_churn", issued.len() as u64);
    if cov.samples.len() < 6 {
        cov.samples.push(J::obj(vec![
            ("workload", J::s(workload)),
            ("max_recycles_of_one_slot", J::U(recycles.iter().copied().max().unwrap_or(0) as u64)),
            ("slots_retired", J::U(retired.len() as u64)),
            ("final_count", J::U(arena.count() as u64)),
            ("distinct_ids_issued", J::U(issued.len() as u64)),
        ]));
    }
    None
}

/// Generation churn through `clear()`: tens of thousands of (build a few nodes, look at them, clear) rounds on ONE
/// arena.  Whatever an implementation counts per clear (an epoch, a generation for new slots) is driven past the
/// width of the stamp here; every round must look exactly like the first one.
pub fn run_w3_clear(ctx: &Ctx, per_gen: usize, cycles: u64, cov: &mut Cov) -> Option<Violation> {
    use crate::payload::Plain;
    use indextree::NodeId;
    use std::num::NonZeroUsize;
    let workload = format!("w3-{}slots-{}cycles-clearchurn", per_gen, cycles);
    cov.histories += 1;
    {
        let mut c = ctx.beacon.current.lock().unwrap();
        c.0 = workload.clone();
        c.1.clear();
    }
    let mut arena: Arena<Plain> = Arena::new();
    let mut digest = Digest::default();
    let mut evals = 0u64;
    let mut nonempty_clears = 0u64;
    let per_gen = per_gen.max(1);
    // Some(violation) if this check owns one of `props`, otherwise the history is abandoned
    macro_rules! fire {
        ($props:expr, $sig:expr, $cyc:expr, $($arg:tt)*) => {{
            let props: &[&str] = &$props;
            if props.iter().any(|p| ctx.is(p)) {
                return Some(Violation {
                    prop: ctx.prop.to_string(),
                    sig: format!("clear-churn/{}", $sig),
                    detail: format!("{} (round {} = after {} clear() calls on non-empty arenas, workload {})", format!($($arg)*), $cyc, nonempty_clears, workload),
                    workload: format!("{}@{}", workload, $cyc),
                    step: $cyc as usize,
                    ops: Vec::new(),
                });
            } else {
                Cov::inc(&mut cov.abandoned, format!("{} [clear-churn/{}]", props.join("+"), $sig));
                return None;
            }
        }};
    }
    for cyc in 1..=cycles {
        ctx.beacon.tick.fetch_add(1, Ordering::Relaxed);
        let k = 1 + (cyc as usize % per_gen);
        let full = cyc < 20 || cyc % 509 == 0 || cyc + 3 >= cycles || (32_760..32_780).contains(&nonempty_clears) || (65_530..65_545).contains(&nonempty_clears);
        // the call-by-call comparison with a new arena is C13's own question; the other checks do not ask it
        // (an answer they could not use would only make them abandon the history)
        let mut fresh: Option<Arena<Plain>> = if full && ctx.is("C13") { Some(Arena::new()) } else { None };
        let mut ids: Vec<NodeId> = Vec::with_capacity(k);
        for j in 0..k {
            let pay = Plain { tid: cyc * 8 + j as u64, val: j as u64 };
            let id = match guarded(|| arena.new_node(pay.clone())) {
                Ok(id) => id,
                Err(p) => fire!(["C05", "C07", "C13"], "alloc-panic", cyc, "new_node panicked: {}", p),
            };
            if usize::from(id) != j + 1 || arena.count() != j + 1 {
                fire!(["C07", "C13"], "slot-numbering-after-clear", cyc, "node #{} created after clear() landed at position {} (count() = {})", j + 1, usize::from(id), arena.count());
            }
            if ids.contains(&id) {
                fire!(["C06", "C13"], "id-issued-twice", cyc, "two live nodes got the same id {:?}", id);
            }
            match guarded(|| id.is_removed(&arena)) {
                Ok(false) => {}
                Ok(true) => fire!(["C06", "C11", "C13"], "live-id-reports-removed", cyc, "the node just created at position {} has id {:?}, which reports is_removed() = true", j + 1, id),
                Err(p) => fire!(["C05", "C06"], "is_removed-panic", cyc, "is_removed panicked: {}", p),
            }
            if let Some(f) = fresh.as_mut() {
                let fid = f.new_node(pay);
                if fid != id {
                    fire!(["C13"], "ids-after-clear-differ-from-new-arena", cyc, "after clear() node #{} got id {:?}; a new arena gives {:?}", j + 1, id, fid);
                }
            }
            ids.push(id);
        }
        if k >= 2 {
            if let Err(p) = guarded(|| ids[0].append(ids[1], &mut arena)) {
                fire!(["C05", "C03"], "append-panic", cyc, "append of two live nodes panicked: {}", p);
            }
            if let Some(f) = fresh.as_mut() {
                ids[0].append(ids[1], f);
            }
        }
        let removed: Option<usize> = if k >= 3 && cyc % 2 == 0 {
            if let Err(p) = guarded(|| ids[2].remove(&mut arena)) {
                fire!(["C05", "C04"], "remove-panic", cyc, "remove of a live node panicked: {}", p);
            }
            if let Some(f) = fresh.as_mut() {
                ids[2].remove(f);
            }
            Some(2)
        } else {
            None
        };
        // ---- lookups (C11): every path, every round
        let r = guarded(|| -> Result<(), (&'static str, String)> {
            if arena.count() != k || arena.iter().count() != k || arena.as_slice().len() != k || arena.is_empty() {
                return Err(("count-paths", format!("count() {} iter().count() {} as_slice().len() {} is_empty() {} with {} slots", arena.count(), arena.iter().count(), arena.as_slice().len(), arena.is_empty(), k)));
            }
            for (j, id) in ids.iter().enumerate() {
                let pos = NonZeroUsize::new(j + 1).unwrap();
                if removed == Some(j) {
                    if arena.get_node_id_at(pos).is_some() {
                        return Err(("id-at-removed-position", format!("get_node_id_at({}) = {:?} for a removed position", j + 1, arena.get_node_id_at(pos))));
                    }
                    continue;
                }
                if arena.get_node_id_at(pos) != Some(*id) {
                    return Err(("get_node_id_at", format!("get_node_id_at({}) = {:?}, the live node there has id {:?}", j + 1, arena.get_node_id_at(pos), id)));
                }
                let slot = &arena.as_slice()[j];
                match arena.get(*id) {
                    Some(n) if std::ptr::eq(n, slot) => {}
                    other => return Err(("get", format!("get({:?}) = {} instead of the node at position {}", id, if other.is_some() { "another node" } else { "None" }, j + 1))),
                }
                if !std::ptr::eq(&arena[*id], slot) {
                    return Err(("index", format!("arena[{:?}] is not the node at position {}", id, j + 1)));
                }
                if arena.get_node_id(slot) != Some(*id) {
                    return Err(("get_node_id", format!("get_node_id(node at position {}) = {:?}, its id is {:?}", j + 1, arena.get_node_id(slot), id)));
                }
                if slot.is_removed() || slot.get().tid != cyc * 8 + j as u64 {
                    return Err(("payload", format!("the node at position {} is removed / holds another round's payload", j + 1)));
                }
                if full && (format!("{}", id) != format!("{}", j + 1) || usize::from(*id) != j + 1 || NonZeroUsize::from(*id) != pos) {
                    return Err(("position-conversions", format!("Display/usize of {:?} do not give position {}", id, j + 1)));
                }
            }
            if arena.get_node_id_at(NonZeroUsize::new(k + 1).unwrap()).is_some() {
                return Err(("id-at-out-of-range", format!("get_node_id_at({}) is Some with {} slots", k + 1, k)));
            }
            Ok(())
        });
        match r {
            Ok(Ok(())) => {}
            Ok(Err((sig, d))) => fire!(["C11"], sig, cyc, "{}", d),
            Err(p) => fire!(["C11", "C05"], "lookup-panic", cyc, "a lookup panicked: {}", p),
        }
        evals += 4 * k as u64;
        if k >= 2 && (arena[ids[0]].first_child() != Some(ids[1]) || arena[ids[1]].parent() != Some(ids[0])) {
            fire!(["C01", "C03"], "links", cyc, "append(a, b) did not link the two nodes");
        }
        if let Some(f) = fresh.as_ref() {
            if arena != *f {
                fire!(["C13"], "arena-after-clear-differs-from-new-arena", cyc, "the same {} calls after clear() and on a new arena give arenas that are not equal", k + 1);
            }
            cov.bump("rounds_compared_with_a_new_arena");
        }
        if ctx.is("C17") && (full || cyc % 257 == 0) {
            digest.s(&format!("{:?}", ids));
            digest.u(arena.count() as u64);
            digest.u(arena.capacity() as u64);
        }
        // ---- clear
        let cap = arena.capacity();
        if let Err(p) = guarded(|| arena.clear()) {
            fire!(["C05", "C13"], "clear-panic", cyc, "clear() panicked: {}", p);
        }
        nonempty_clears += 1;
        if cyc % 7 == 0 {
            arena.clear(); // an empty arena cleared again
        }
        if arena.count() != 0 || !arena.is_empty() || arena.iter().next().is_some() {
            fire!(["C13", "C11"], "not-empty-after-clear", cyc, "count() = {} after clear()", arena.count());
        }
        if arena.capacity() != cap {
            fire!(["C13"], "clear-changed-capacity", cyc, "clear() changed capacity() {} -> {}", cap, arena.capacity());
        }
        if ctx.is("C17") && (full || cyc % 257 == 0) {
            // an id whose slot no longer exists: whatever the calls do with it (value or panic), every build does the same
            let old = ids[ids.len() - 1];
            digest.u(guarded(|| old.is_removed(&arena)).map_or(7, |b| b as u64));
            digest.u(guarded(|| arena.get(old).is_some()).map_or(7, |b| b as u64));
            digest.u(guarded(|| old.children(&arena).count()).map_or(u64::MAX, |c| c as u64));
            digest.u(guarded(|| old.ancestors(&arena).count()).map_or(u64::MAX, |c| c as u64));
            digest.u(guarded(|| old.checked_append(old, &mut arena).is_ok()).map_or(7, |b| b as u64));
        }
        match guarded(|| (arena.get(ids[0]).is_some(), arena.get_node_id_at(NonZeroUsize::new(1).unwrap()).is_some())) {
            Ok((false, false)) => {}
            Ok((g, a)) => fire!(["C11"], "lookup-in-cleared-arena", cyc, "after clear(): get(old id).is_some() = {}, get_node_id_at(1).is_some() = {}", g, a),
            Err(p) => fire!(["C11", "C05"], "lookup-panic", cyc, "a lookup in a cleared arena panicked: {}", p),
        }
        cov.distinct.insert(mix2(nonempty_clears.min(70_000) / 16, (k as u64) << 8 | removed.is_some() as u64));
    }
    if ctx.is("C17") {
        cov.digests.push((workload.clone(), digest.hex()));
    }
    cov.calls += cycles * (per_gen as u64 + 2);
    cov.evaluations += cycles;
    cov.observations += evals;
    cov.add("clear_churn_rounds", cycles);
    cov.maxi("clear_calls_on_one_non_empty_arena", nonempty_clears);
    if cov.samples.len() < 6 {
        cov.samples.push(J::obj(vec![("workload", J::s(workload)), ("clear_calls_on_non_empty_arena", J::U(nonempty_clears))]));
    }
    None
}

/// C17 only: arenas of many sizes up to `max_nodes` (thresholds like "more than 256 slots" are where a
/// feature-dependent fast path would sit).  Everything observable goes into one digest per size, including
/// `capacity()` after growth, `clear()`, `reserve()` and `with_capacity()` (the allocation policy is `Vec`'s in
/// every build, so the numbers must agree between the feature sets).
pub fn run_c17_sizes(ctx: &Ctx, max_nodes: usize, cov: &mut Cov) -> Option<Violation> {
    use crate::payload::Plain;
    use indextree::NodeId;
    let workload = format!("w3-{}slots-0cycles-sizes", max_nodes);
    cov.histories += 1;
    {
        let mut c = ctx.beacon.current.lock().unwrap();
        c.0 = workload.clone();
        c.1.clear();
    }
    let mut sizes: Vec<usize> = vec![1, 2, 7, 8, 9, 31, 33, 63, 65, 127, 129, 255, 256, 257, 258, 300, 511, 513, 1000, 1025, 4097, 10_000, 65_535, 65_537, 100_000];
    sizes.retain(|n| *n <= max_nodes);
    let mut rng = Rng::derive(ctx.seed, 171, max_nodes as u64);
    for n in sizes {
        ctx.beacon.tick.fetch_add(1, Ordering::Relaxed);
        let mut d = Digest::default();
        let r = guarded(|| {
            let mut a: Arena<Plain> = Arena::new();
            let mut ids: Vec<NodeId> = Vec::with_capacity(n);
            for i in 0..n {
                let id = a.new_node(Plain { tid: i as u64, val: (i * 7) as u64 });
                if i > 0 {
                    let p = if rng.chance(1, 2) { ids[i - 1 - rng.below(i.min(5))] } else { ids[rng.below(i)] };
                    if rng.chance(2, 3) {
                        p.append(id, &mut a);
                    } else {
                        p.prepend(id, &mut a);
                    }
                }
                ids.push(id);
                if (i + 1).is_power_of_two() || i + 1 == n {
                    d.u(a.capacity() as u64);
                    d.u(a.count() as u64);
                }
            }
            for x in ids[0].descendants(&a) {
                d.u(usize::from(x) as u64);
            }
            d.s(&format!("{:?}", ids[n - 1]));
            if n <= 5000 {
                d.s(&format!("{}", ids[0].debug_pretty_print(&a)));
                for e in ids[0].reverse_traverse(&a) {
                    d.s(&format!("{:?}", e));
                }
            }
            let copy = a.clone();
            d.u(copy.capacity() as u64);
            d.u((copy == a) as u64);
            // free a third of it (single removals and one subtree), then see where new nodes land
            for i in (1..n).step_by(3) {
                if !ids[i].is_removed(&a) {
                    ids[i].remove(&mut a);
                }
            }
            if n > 4 {
                let v = ids[n / 2];
                if !v.is_removed(&a) {
                    v.remove_subtree(&mut a);
                }
            }
            d.u(a.iter().filter(|x| x.is_removed()).count() as u64);
            d.u(a.capacity() as u64);
            for i in 0..(n / 4 + 2) {
                let id = a.new_node(Plain { tid: 1 << 30 | i as u64, val: 0 });
                d.s(&format!("{:?}", id));
            }
            d.u(a.count() as u64);
            d.u(a.capacity() as u64);
            // clear keeps the storage; afterwards it numbers like a new arena
            a.clear();
            d.u(a.capacity() as u64);
            d.u(a.count() as u64);
            d.u(a.is_empty() as u64);
            let first = a.new_node(Plain { tid: 5, val: 5 });
            d.s(&format!("{:?}", first));
            d.u(a.capacity() as u64);
            a.reserve(n);
            d.u(a.capacity() as u64);
            a.clear();
            d.u(a.capacity() as u64);
            let w: Arena<Plain> = Arena::with_capacity(n);
            d.u(w.capacity() as u64);
            let mut w2: Arena<Plain> = Arena::new();
            w2.reserve(n);
            d.u(w2.capacity() as u64);
            w2.clear();
            d.u(w2.capacity() as u64);
        });
        if let Err(p) = r {
            d.s("panicked");
            d.s(&p.chars().take(80).collect::<String>());
        }
        cov.digests.push((format!("sizes-{}", n), d.hex()));
        cov.evaluations += 1;
        cov.observations += 40 + n as u64;
        cov.calls += 3 * n as u64;
        cov.maxi("largest_arena_in_the_size_battery", n as u64);
        cov.distinct.insert(mix2(n as u64, 0x51));
    }
    None
}

/// Generation churn on a drop-counting payload: every removal must drop exactly the removed
/// node's payload, at every generation of the slot including the last one.
pub fn run_w3_tok(ctx: &Ctx, cycles: u64, cov: &mut Cov) -> Option<Violation> {
    use crate::payload::{drops_of, drops_reset, drops_total, made_total, Tok};
    let workload = format!("w3tok-{}cycles", cycles);
    cov.histories += 1;
    {
        let mut c = ctx.beacon.current.lock().unwrap();
        c.0 = workload.clone();
        c.1.clear();
    }
    let viol = |sig: &str, detail: String, cyc: u64| {
        Some(Violation {
            prop: ctx.prop.to_string(),
            sig: format!("churn-tok/{}", sig),
            detail: format!("{} (cycle {}, workload {})", detail, cyc, workload),
            workload: format!("{}@{}", workload, cyc),
            step: cyc as usize,
            ops: Vec::new(),
        })
    };
    drops_reset();
    let mut arena: Arena<Tok> = Arena::new();
    let keep = arena.new_node(Tok::make(0, 5));
    let mut tid = 1u64;
    let mut cur = arena.new_node(Tok::make(tid, tid));
    let mut evals = 0u64;
    // how often each slot was re-issued so far (index = position - 1)
    let mut reissued: Vec<u32> = vec![0; 2];
    let note = |reissued: &mut Vec<u32>, id: indextree::NodeId, fresh_ok: bool| {
        let s = usize::from(id) - 1;
        if s >= reissued.len() {
            reissued.resize(s + 1, 0);
            let _ = fresh_ok;
        } else {
            reissued[s] += 1;
        }
    };
    for cyc in 1..=cycles {
        ctx.beacon.tick.fetch_add(1, Ordering::Relaxed);
        let gen_of_slot = reissued[usize::from(cur) - 1] as u64 + 1;
        if (32_761..=32_769).contains(&gen_of_slot) {
            // the worn node leaves as an INNER node of a subtree freed by one remove_subtree call:
            // top -> [left, cur -> [kid -> [grandkid]], right]
            let worn_tid = tid;
            let base = tid + 1;
            tid += 5;
            let r = guarded(|| {
                let top = arena.new_node(Tok::make(base, 0));
                let left = top.append_value(Tok::make(base + 1, 0), &mut arena);
                top.append(cur, &mut arena);
                let kid = cur.append_value(Tok::make(base + 2, 0), &mut arena);
                let grandkid = kid.append_value(Tok::make(base + 3, 0), &mut arena);
                let right = top.append_value(Tok::make(base + 4, 0), &mut arena);
                let members: Vec<indextree::NodeId> = top.descendants(&arena).collect();
                top.remove_subtree(&mut arena);
                (members, [top, left, kid, grandkid, right])
            });
            let (members, made) = match r {
                Ok(m) => m,
                Err(p) => return viol("remove_subtree-panic", p, cyc),
            };
            for id in made {
                note(&mut reissued, id, true);
            }
            for t in [base, base + 1, base + 2, base + 3, base + 4, worn_tid] {
                if drops_of(t) != 1 {
                    return viol("subtree-member-not-dropped-once", format!("remove_subtree of a 6-node tree whose inner node sits in a slot re-issued {} times: payload token {} was dropped {} times", gen_of_slot - 1, t, drops_of(t)), cyc);
                }
            }
            if members.len() != 6 || members.iter().any(|m| !m.is_removed(&arena)) || arena.iter().filter(|n| !n.is_removed()).count() != 1 {
                return viol("subtree-member-still-live", format!("after remove_subtree of the 6-node tree {} nodes are live (the bystander alone should be)", arena.iter().filter(|n| !n.is_removed()).count()), cyc);
            }
            cov.bump("worn_slot_freed_as_inner_node_of_a_subtree");
            tid += 1;
            cur = match guarded(|| arena.new_node(Tok::make(tid, tid))) {
                Ok(id) => id,
                Err(p) => return viol("alloc-panic", p, cyc),
            };
            note(&mut reissued, cur, true);
            continue;
        }
        if let Err(p) = guarded(|| cur.remove(&mut arena)) {
            return viol("remove-panic", p, cyc);
        }
        if drops_of(tid) != 1 {
            return viol("not-dropped-at-removal", format!("payload token {} of the node removed in this cycle was dropped {} times", tid, drops_of(tid)), cyc);
        }
        if drops_of(0) != 0 || arena[keep].get().val() != 5 {
            return viol("bystander-dropped", "the bystander's payload was dropped or changed".into(), cyc);
        }
        tid += 1;
        cur = match guarded(|| arena.new_node(Tok::make(tid, tid))) {
            Ok(id) => id,
            Err(p) => return viol("alloc-panic", p, cyc),
        };
        note(&mut reissued, cur, true);
        if drops_of(tid) != 0 || arena[cur].get().tid() != tid {
            return viol("live-payload", format!("freshly stored payload token {} already dropped / not readable", tid), cyc);
        }
        evals += 3;
    }
    drop(arena);
    if drops_of(0) != 1 || drops_of(tid) != 1 || made_total() != drops_total() {
        return viol("conservation-after-arena-drop", format!("created {} payloads, {} drops after the arena was dropped", made_total(), drops_total()), cycles);
    }
    cov.calls += cycles * 2;
    cov.evaluations += cycles;
    cov.observations += evals;
    cov.add("tok_churn_cycles", cycles);
    None
}

// ======================================================================= W6

/// Very deep trees (a path of `depth` nodes with a few side branches) on a thread with an ordinary
/// 2 MiB stack.  No model and no recursion on the harness side: expected values are arithmetic.
/// A stack overflow kills the process; the driver runs this in a child process and treats death by
/// signal as the observation "a valid call on a deep tree did not return".
pub fn run_deep(prop: &'static str, depth: usize) -> Result<u64, (String, String)> {
    use crate::payload::Plain;
    use indextree::{NodeEdge, NodeId};
    macro_rules! bail {
        ($kind:expr, $($arg:tt)*) => {
            return Err(($kind.to_string(), format!($($arg)*)))
        };
    }
    let mut a: Arena<Plain> = Arena::new();
    let p = |t: u64| Plain { tid: t, val: t };
    let root = a.new_node(p(0));
    let mut ids: Vec<NodeId> = vec![root];
    for i in 1..depth {
        let last = *ids.last().unwrap();
        // a leaf sibling before the spine child at every 1000th level
        if i % 1000 == 0 {
            last.append_value(p(1_000_000 + i as u64), &mut a);
        }
        ids.push(last.append_value(p(i as u64), &mut a));
    }
    let side = (1..depth).filter(|i| i % 1000 == 0).count();
    let total = depth + side;
    let mut obs = 0u64;
    let deepest = *ids.last().unwrap();
    // ---- traversals, externally and through internal iteration
    if matches!(prop, "C09" | "C02" | "C05") {
        let n = root.descendants(&a).count();
        if n != total {
            bail!("descendants-count", "descendants(root).count() = {} on a tree of {} nodes", n, total);
        }
        if root.descendants(&a).last() != Some(deepest) {
            bail!("descendants-last", "descendants(root).last() is not the deepest node");
        }
        let mut k = 0usize;
        for _ in root.descendants(&a) {
            k += 1;
        }
        if k != total {
            bail!("descendants-loop", "a for loop over descendants(root) saw {} of {} nodes", k, total);
        }
        let mut starts = 0usize;
        root.traverse(&a).for_each(|e| {
            if let NodeEdge::Start(_) = e {
                starts += 1
            }
        });
        if starts != total || root.traverse(&a).count() != 2 * total || root.reverse_traverse(&a).count() != 2 * total {
            bail!("traverse-count", "traverse / reverse_traverse of the deep tree do not have {} edges", 2 * total);
        }
        if root.reverse_traverse(&a).last() != Some(NodeEdge::Start(root)) || root.traverse(&a).last() != Some(NodeEdge::End(root)) {
            bail!("traverse-last", "last edge of traverse / reverse_traverse is wrong");
        }
        if deepest.ancestors(&a).count() != depth || deepest.ancestors(&a).last() != Some(root) {
            bail!("ancestors-count", "ancestors(deepest) does not have {} items ending at the root", depth);
        }
        if deepest.predecessors(&a).fold(0usize, |n, _| n + 1) != total {
            bail!("predecessors-count", "predecessors(deepest) does not visit {} nodes", total);
        }
        let mid = ids[depth / 2];
        if mid.descendants(&a).count() != total - (depth / 2) - (1..=depth / 2).filter(|i| i % 1000 == 0).count() {
            bail!("descendants-mid", "descendants(mid) has a wrong count");
        }
        obs += 12;
    }
    // ---- moves at depth (ancestor walks are as long as the path)
    if matches!(prop, "C03" | "C05" | "C02") {
        let x = a.new_node(p(5_000_000));
        if deepest.checked_append(x, &mut a).is_err() || a[x].parent() != Some(deepest) {
            bail!("deep-append", "append below the deepest node failed");
        }
        if deepest.checked_append(root, &mut a).is_ok() {
            bail!("deep-append-ancestor", "appending the root below its deepest descendant was accepted");
        }
        if x.checked_insert_after(ids[depth / 3], &mut a).is_ok() {
            bail!("deep-insert-ancestor", "an ancestor was accepted as sibling of its deep descendant");
        }
        x.remove(&mut a);
        // move a deep subtree to the top and back
        let sub = ids[depth / 2];
        let other = a.new_node(p(5_000_001));
        other.append(sub, &mut a);
        if a[sub].parent() != Some(other) || a[ids[depth / 2 - 1]].last_child() == Some(sub) {
            bail!("deep-move", "moving a deep subtree did not re-home it");
        }
        ids[depth / 2 - 1].append(sub, &mut a);
        other.remove(&mut a);
        obs += 5;
    }
    // ---- removals of deep subtrees
    if matches!(prop, "C04" | "C05" | "C02" | "C08" | "C12" | "C07") {
        let cut = 3 * depth / 4;
        let before_removed = a.iter().filter(|n| n.is_removed()).count();
        ids[cut].remove_subtree(&mut a);
        let removed_now = a.iter().filter(|n| n.is_removed()).count() - before_removed;
        let expect = (depth - cut) + (cut + 1..depth).filter(|i| i % 1000 == 0).count();
        if removed_now != expect {
            bail!("deep-remove_subtree-count", "remove_subtree of a {}-level subtree removed {} nodes, the subtree has {}", depth - cut, removed_now, expect);
        }
        if a[ids[cut - 1]].last_child() == Some(ids[cut]) || !ids[cut].is_removed(&a) || !deepest.is_removed(&a) || ids[cut - 1].is_removed(&a) {
            bail!("deep-remove_subtree-effect", "remove_subtree of a deep subtree left wrong liveness / links");
        }
        for i in (cut..depth).step_by(997) {
            let n = &a[ids[i]];
            if n.parent().is_some() || n.first_child().is_some() || n.next_sibling().is_some() {
                bail!("deep-removed-links", "a node removed with the deep subtree still reports links");
            }
        }
        // tens of thousands of slots are free now: allocation must recycle them, one by one
        if prop == "C07" {
            let n0 = a.count();
            let mut seen = std::collections::HashSet::new();
            for i in 0..2000u64 {
                let id = a.new_node(p(6_000_000 + i));
                if a.count() != n0 || !seen.insert(usize::from(id)) {
                    bail!("deep-recycle", "with {} slots free, allocation #{} grew the arena or returned a slot twice", expect, i);
                }
            }
            // and freeing again with a long free list
            let more: Vec<NodeId> = seen.iter().map(|s| a.get_node_id_at(std::num::NonZeroUsize::new(*s).unwrap()).unwrap()).collect();
            for id in more {
                id.remove(&mut a);
            }
            obs += 2;
        }
        // remove (splice) in the middle of the path, then the whole rest
        ids[depth / 4].remove(&mut a);
        if a[ids[depth / 4 + 1]].parent() != Some(ids[depth / 4 - 1]) {
            bail!("deep-remove-splice", "remove() in the middle of a deep path did not splice the child in");
        }
        root.remove_subtree(&mut a);
        if a.iter().any(|n| !n.is_removed()) {
            bail!("deep-remove_subtree-root", "after remove_subtree(root) some node is still live");
        }
        obs += 6;
    }
    drop(a);
    // ---- very wide: one node with `width` children that are spliced into its parent by remove()
    {
        let width = depth / 2;
        let mut a: Arena<Plain> = Arena::new();
        let root = a.new_node(p(0));
        let before = root.append_value(p(1), &mut a);
        let mid = root.append_value(p(2), &mut a);
        let after = root.append_value(p(3), &mut a);
        let mut kids: Vec<NodeId> = Vec::with_capacity(width);
        for i in 0..width {
            kids.push(mid.append_value(p(100 + i as u64), &mut a));
        }
        if matches!(prop, "C09" | "C10" | "C02" | "C05") {
            if mid.children(&a).count() != width || mid.children(&a).rev().count() != width || mid.children(&a).last() != kids.last().copied() {
                bail!("wide-children", "children() of a node with {} children does not yield them all", width);
            }
            if kids[width / 2].following_siblings(&a).count() != width - width / 2 || kids[width / 2].preceding_siblings(&a).rev().next() != Some(kids[0]) {
                bail!("wide-siblings", "sibling iterators in a list of {} children are wrong", width);
            }
            if root.descendants(&a).count() != width + 4 {
                bail!("wide-descendants", "descendants of the wide tree: wrong count");
            }
            obs += 3;
        }
        // remove() splices all children into the grandparent, between `before` and `after`
        mid.remove(&mut a);
        let mut k = 0usize;
        let mut ok = true;
        let mut expect_prev = Some(before);
        for c in root.children(&a) {
            if k >= 1 && k <= width {
                let n = &a[c];
                ok &= c == kids[k - 1] && n.parent() == Some(root) && n.previous_sibling() == expect_prev;
            }
            expect_prev = Some(c);
            k += 1;
            if k > width + 4 {
                break;
            }
        }
        if !ok || k != width + 2 || a[root].first_child() != Some(before) || a[root].last_child() != Some(after) || a[after].previous_sibling() != kids.last().copied() {
            bail!("wide-remove-splice", "remove() of a node with {} children did not splice them into its parent with correct parent / sibling links ({} children seen)", width, k);
        }
        if prop == "C01" {
            match mon::c01_wellformed(&a) {
                Ok(n) => obs += n / 1000,
                Err(f) => bail!(format!("wide-{}", f.sig), "{}", f.detail),
            }
        }
        if mid.is_removed(&a) != true || a[mid].first_child().is_some() || a[mid].last_child().is_some() {
            bail!("wide-removed-links", "the removed node keeps child links");
        }
        // move one from the middle, then drop everything
        kids[width / 2].detach(&mut a);
        if a[kids[width / 2 - 1]].next_sibling() != Some(kids[width / 2 + 1]) {
            bail!("wide-detach", "detach in the middle of {} siblings did not close the gap", width);
        }
        root.remove_subtree(&mut a);
        if a.iter().filter(|n| !n.is_removed()).count() != 1 {
            bail!("wide-remove_subtree", "after remove_subtree(root) of the wide tree the number of live nodes is not 1 (the detached one)");
        }
        obs += 5;
    }
    // ---- a very long TOP-LEVEL chain: `len` parentless nodes linked as siblings (no parent to bound any walk)
    {
        let len = depth / 2;
        let mut a: Arena<Plain> = Arena::new();
        let first = a.new_node(p(0));
        let mut chain: Vec<NodeId> = vec![first];
        for i in 1..len {
            let n = a.new_node(p(i as u64));
            if chain[i - 1].checked_insert_after(n, &mut a).is_err() {
                bail!("chain-build", "insert_after between two parentless nodes was refused");
            }
            chain.push(n);
        }
        let below = chain[len / 2].append_value(p(9_000_000), &mut a);
        let last = chain[len - 1];
        if matches!(prop, "C09" | "C10" | "C02" | "C05") {
            let mid = chain[len / 2];
            if first.following_siblings(&a).count() != len || last.preceding_siblings(&a).count() != len || mid.following_siblings(&a).count() != len - len / 2 {
                bail!("chain-siblings", "sibling iterators along a top-level chain of {} nodes do not yield them all", len);
            }
            if first.following_siblings(&a).rev().next() != Some(last) || last.preceding_siblings(&a).rev().next() != Some(first) || mid.following_siblings(&a).next_back() != Some(last) || mid.preceding_siblings(&a).next_back() != Some(first) {
                bail!("chain-back-end", "the back end of a sibling iterator over a top-level chain of {} nodes is not the chain end", len);
            }
            if mid.following_siblings(&a).rev().count() != len - len / 2 || mid.preceding_siblings(&a).rfold(0usize, |n, _| n + 1) != len / 2 + 1 {
                bail!("chain-rev-count", "reverse iteration along a top-level chain of {} nodes has the wrong length", len);
            }
            #[allow(deprecated)]
            {
                let pred: Vec<NodeId> = below.predecessors(&a).take(len + 5).collect();
                if pred.len() != len / 2 + 2 || pred.last() != Some(&first) || below.predecessors(&a).last() != Some(first) || below.predecessors(&a).count() != len / 2 + 2 {
                    bail!("chain-predecessors", "predecessors() of a node below the middle of a top-level chain of {} nodes: {} items, last() = {:?}", len, pred.len(), below.predecessors(&a).last().map(usize::from));
                }
            }
            if below.ancestors(&a).count() != 2 || mid.descendants(&a).count() != 2 {
                bail!("chain-ancestors", "ancestors / descendants next to a top-level chain are wrong");
            }
            obs += 6;
        }
        if matches!(prop, "C03" | "C05" | "C02" | "C01" | "C04" | "C12") {
            // moves and removals in the middle of the chain
            let x = a.new_node(p(9_000_001));
            if chain[len / 3].checked_insert_before(x, &mut a).is_err() || a[x].next_sibling() != Some(chain[len / 3]) || a[x].previous_sibling() != Some(chain[len / 3 - 1]) || a[x].parent().is_some() {
                bail!("chain-insert", "insert_before in the middle of a top-level chain of {} nodes did not link the node in", len);
            }
            if last.checked_insert_after(first, &mut a).is_err() || a[last].next_sibling() != Some(first) || a[chain[1]].previous_sibling().is_some() || a[first].next_sibling().is_some() {
                bail!("chain-rotate", "moving the first node of a top-level chain of {} nodes behind the last did not rotate the chain", len);
            }
            x.detach(&mut a);
            if a[chain[len / 3 - 1]].next_sibling() != Some(chain[len / 3]) || a[x].previous_sibling().is_some() || a[x].next_sibling().is_some() {
                bail!("chain-detach", "detach in the middle of a top-level chain did not close the gap");
            }
            chain[len / 2].remove(&mut a);
            if a[below].parent().is_some() || a[below].previous_sibling() != Some(chain[len / 2 - 1]) || a[below].next_sibling() != Some(chain[len / 2 + 1]) || a[chain[len / 2 + 1]].previous_sibling() != Some(below) {
                bail!("chain-remove", "remove() of a chain member with one child did not put the child in its place in the top-level chain");
            }
            if prop == "C01" {
                match mon::c01_wellformed(&a) {
                    Ok(n) => obs += n / 1000,
                    Err(f) => bail!(format!("chain-{}", f.sig), "{}", f.detail),
                }
            }
            obs += 4;
        }
    }
    Ok(obs + 1)
}

// ------------------------------------------------------------------ replay

/// Re-executes an explicit history with this property's monitors on every step.
pub fn replay_ops<P: Payload>(ctx: &Ctx, ops: &[Op], cap0: usize, worn: (u32, u64), cov: &mut Cov, tok: bool, hook: &mut dyn Hook<P>) -> Option<Violation> {
    let mut st: State<P> = if worn.0 > 0 {
        let mut prime_rng = Rng::derive(ctx.seed, 71, worn.1);
        State::primed_worn(&mut prime_rng, worn.0, cap0)
    } else {
        State::with_arena(if cap0 == 0 { Arena::new() } else { Arena::with_capacity(cap0) })
    };
    let mut rng = Rng::derive(ctx.seed, 9, 9);
    let mut done: Vec<Op> = Vec::new();
    let mut blind = false;
    if tok {
        crate::payload::drops_reset();
    }
    for (i, op) in ops.iter().enumerate() {
        ctx.beacon.tick.fetch_add(1, Ordering::Relaxed);
        {
            let mut c = ctx.beacon.current.lock().unwrap();
            c.0 = "replay".into();
            c.1.push(op.clone());
        }
        // arguments must exist
        let ok = match op {
            Op::Ins { t, x, .. } => *t < st.model.nodes.len() && *x < st.model.nodes.len(),
            Op::AppendValue(x) | Op::Detach(x) | Op::Remove(x) | Op::RemoveSubtree(x) | Op::Replace(x) | Op::Write(x, _) => *x < st.model.nodes.len(),
            _ => true,
        };
        if !ok {
            eprintln!("replay: op #{} `{}` names a node that does not exist in this run", i, op.to_text());
            return None;
        }
        done.push(op.clone());
        let info = st.step(op);
        account_step(ctx, &st, &info, cov);
        let mut fs = info.findings.clone();
        // very long histories (a ballast forest first): the heavy monitors only over the last 200 calls
        let watched = ops.len() <= 500 || i + 200 >= ops.len();
        if watched {
            fs.extend(monitors(ctx, &mut st, &info, true, &mut rng, cov, tok));
            if !info.diverged {
                fs.extend(hook.after_step(ctx, &mut st, &info, true, &mut rng, cov));
            }
        }
        let raw_prop = ctx.is("C01") || ctx.is("C02") || ctx.is("C10");
        if blind {
            if let Some(f) = fs.iter().find(|f| ctx.owns(f) && !f.sig.starts_with("model/") && !f.sig.starts_with("outcome/")) {
                return Some(Violation {
                    prop: ctx.prop.to_string(),
                    sig: f.sig.clone(),
                    detail: f.detail.clone(),
                    workload: "replay".into(),
                    step: i,
                    ops: done.clone(),
                });
            }
            if !liveness_agrees(&st) {
                eprintln!("replay: arena and model disagree on which slots are live after op #{}; stopping", i);
                return None;
            }
            continue;
        }
        let (v, stop) = judge(ctx, &fs, cov, "replay", i, &done);
        if v.is_some() {
            return v;
        }
        if (stop || info.diverged) && raw_prop && liveness_agrees(&st) {
            blind = true;
            continue;
        }
        if stop || info.diverged {
            eprintln!("replay: stopped at op #{} on a finding that belongs to another property: {:?}", i, fs.first().map(|f| (&f.props, &f.sig)));
            return None;
        }
    }
    let fs = hook.at_end(ctx, &mut st, &mut rng, cov);
    judge(ctx, &fs, cov, "replay", ops.len(), &done).0
}

#[allow(dead_code)]
fn _unused(_: InsKind, _: Persona) {
    let _ = classify;
}
