//! Coverage accounting: what the monitors actually observed.

use crate::json::J;
use std::collections::{BTreeMap, HashSet};

#[derive(Default, Clone)]
pub struct Cov {
    pub histories: u64,
    /// call boundaries executed (all workloads)
    pub calls: u64,
    /// call boundaries / checkpoints at which this property's monitors ran
    pub evaluations: u64,
    /// elementary observations made by this property's monitors
    pub observations: u64,
    pub distinct: HashSet<u64>,
    pub counters: BTreeMap<String, u64>,
    pub ops: BTreeMap<String, u64>,
    pub outcomes: BTreeMap<String, u64>,
    pub op_rel: BTreeMap<String, u64>,
    pub node_classes: BTreeMap<String, u64>,
    pub personas: BTreeMap<String, u64>,
    pub panics: BTreeMap<String, u64>,
    pub abandoned: BTreeMap<String, u64>,
    pub max: BTreeMap<String, u64>,
    pub samples: Vec<J>,
    pub digests: Vec<(String, String)>,
}

impl Cov {
    pub fn bump(&mut self, k: &str) {
        *self.counters.entry(k.to_string()).or_insert(0) += 1;
    }
    pub fn add(&mut self, k: &str, n: u64) {
        *self.counters.entry(k.to_string()).or_insert(0) += n;
    }
    pub fn inc(map: &mut BTreeMap<String, u64>, k: impl Into<String>) {
        *map.entry(k.into()).or_insert(0) += 1;
    }
    pub fn maxi(&mut self, k: &str, v: u64) {
        let e = self.max.entry(k.to_string()).or_insert(0);
        if v > *e {
            *e = v;
        }
    }
    pub fn merge(&mut self, o: Cov) {
        self.histories += o.histories;
        self.calls += o.calls;
        self.evaluations += o.evaluations;
        self.observations += o.observations;
        self.distinct.extend(o.distinct);
        for (src, dst) in [
            (o.counters, &mut self.counters),
            (o.ops, &mut self.ops),
            (o.outcomes, &mut self.outcomes),
            (o.op_rel, &mut self.op_rel),
            (o.node_classes, &mut self.node_classes),
            (o.personas, &mut self.personas),
            (o.panics, &mut self.panics),
            (o.abandoned, &mut self.abandoned),
        ] {
            for (k, v) in src {
                *dst.entry(k).or_insert(0) += v;
            }
        }
        for (k, v) in o.max {
            let e = self.max.entry(k).or_insert(0);
            if v > *e {
                *e = v;
            }
        }
        for s in o.samples {
            if self.samples.len() < 6 {
                self.samples.push(s);
            }
        }
        self.digests.extend(o.digests);
    }

    pub fn to_json(&self) -> J {
        J::obj(vec![
            ("histories", J::U(self.histories)),
            ("call_boundaries", J::U(self.calls)),
            ("evaluations", J::U(self.evaluations)),
            ("observations", J::U(self.observations)),
            ("distinct_nontrivial", J::U(self.distinct.len() as u64)),
            ("counters", J::map_u(&self.counters)),
            ("operations", J::map_u(&self.ops)),
            ("outcomes", J::map_u(&self.outcomes)),
            ("operation_x_relation", J::map_u(&self.op_rel)),
            ("node_classes", J::map_u(&self.node_classes)),
            ("personas", J::map_u(&self.personas)),
            ("panics_observed", J::map_u(&self.panics)),
            ("histories_abandoned_on_foreign_finding", J::map_u(&self.abandoned)),
            ("max", J::map_u(&self.max)),
            ("samples", J::A(self.samples.clone())),
        ])
    }
}
