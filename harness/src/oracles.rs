//! Monitors.  Each returns `Ok(number of elementary observations made)` or
//! `Err(Finding)`.  Monitors that only use raw link accessors ("raw") may be
//! run on an arena the model no longer follows; all others require that the
//! step did not diverge.

use crate::exec::{do_call, guarded, Finding, Outcome, Ret, State, StepInfo};
use crate::model::{InsKind, Model, H, INS_KINDS};
use crate::ops::Op;
use crate::payload::Payload;
use crate::rng::Rng;
use indextree::{Arena, Node, NodeEdge, NodeId};
use std::collections::HashSet;
use std::num::NonZeroUsize;

type R = Result<u64, Finding>;

fn slot_of(id: NodeId) -> usize {
    usize::from(id) - 1
}

fn five<P>(n: &Node<P>) -> [(&'static str, Option<NodeId>); 5] {
    [
        ("parent", n.parent()),
        ("previous_sibling", n.previous_sibling()),
        ("next_sibling", n.next_sibling()),
        ("first_child", n.first_child()),
        ("last_child", n.last_child()),
    ]
}

fn wrap(props: &[&'static str], mon: &str, r: Result<Result<u64, (String, String)>, String>) -> R {
    match r {
        Ok(Ok(n)) => Ok(n),
        Ok(Err((kind, detail))) => Err(Finding::new(props, format!("{}/{}", mon, kind), detail)),
        Err(p) => {
            // a read-only call that panics does not return what this property says it returns;
            // it is also a panic on a valid call (C05)
            let mut ps = props.to_vec();
            if !ps.contains(&"C05") {
                ps.push("C05");
            }
            Err(Finding::new(&ps, format!("{}/panic", mon), format!("a read-only call panicked: {}", p)))
        }
    }
}

macro_rules! bail {
    ($kind:expr, $($arg:tt)*) => {
        return Err(($kind.to_string(), format!($($arg)*)))
    };
}

// ======================================================================= C01

/// Raw. Independent invariant walker over `as_slice()`; uses neither the model
/// nor the library's iterators.
pub fn c01_wellformed<P: Payload>(arena: &Arena<P>) -> R {
    wrap(&["C01"], "wellformed", guarded(|| {
        let s = arena.as_slice();
        let n = s.len();
        let mut obs = 0u64;
        let tgt = |i: usize, name: &str, l: Option<NodeId>| -> Result<Option<usize>, (String, String)> {
            match l {
                None => Ok(None),
                Some(l) => {
                    let j = slot_of(l);
                    if j >= n {
                        bail!(format!("{}-out-of-range", name), "live slot {}: {} names position {} beyond count {}", i + 1, name, j + 1, n);
                    }
                    if s[j].is_removed() {
                        bail!(format!("{}-names-removed", name), "live slot {}: {} names removed slot {}", i + 1, name, j + 1);
                    }
                    if l.is_removed(arena) {
                        bail!(format!("{}-stale-generation", name), "live slot {}: {} names slot {} with an id of an earlier generation", i + 1, name, j + 1);
                    }
                    Ok(Some(j))
                }
            }
        };
        // resolved links per slot
        let mut lk: Vec<Option<[Option<usize>; 5]>> = Vec::with_capacity(n);
        for i in 0..n {
            if s[i].is_removed() {
                lk.push(None);
                continue;
            }
            let f = five(&s[i]);
            let mut a = [None; 5];
            for k in 0..5 {
                a[k] = tgt(i, f[k].0, f[k].1)?;
                obs += 1;
            }
            lk.push(Some(a));
        }
        let mut named_children = vec![0usize; n];
        for i in 0..n {
            let Some(a) = lk[i] else { continue };
            let [parent, prev, next, first, last] = a;
            if let Some(j) = next {
                let b = lk[j].unwrap();
                if b[1] != Some(i) {
                    bail!("next-prev-asymmetric", "next_sibling({}) = {} but previous_sibling({}) = {:?}", i + 1, j + 1, j + 1, b[1].map(|x| x + 1));
                }
                if b[0] != parent {
                    bail!("siblings-different-parent", "{} and its next sibling {} report parents {:?} and {:?}", i + 1, j + 1, parent.map(|x| x + 1), b[0].map(|x| x + 1));
                }
            }
            if let Some(j) = prev {
                let b = lk[j].unwrap();
                if b[2] != Some(i) {
                    bail!("prev-next-asymmetric", "previous_sibling({}) = {} but next_sibling({}) = {:?}", i + 1, j + 1, j + 1, b[2].map(|x| x + 1));
                }
                if b[0] != parent {
                    bail!("siblings-different-parent", "{} and its previous sibling {} report parents {:?} and {:?}", i + 1, j + 1, parent.map(|x| x + 1), b[0].map(|x| x + 1));
                }
            }
            if first.is_some() != last.is_some() {
                bail!("first-last-mismatch", "slot {}: first_child = {:?}, last_child = {:?}", i + 1, first.map(|x| x + 1), last.map(|x| x + 1));
            }
            if let Some(p) = parent {
                named_children[p] += 1;
            }
            obs += 3;
        }
        for p in 0..n {
            let Some(a) = lk[p] else { continue };
            let (first, last) = (a[3], a[4]);
            let mut len = 0usize;
            if let Some(f) = first {
                if lk[f].unwrap()[1].is_some() {
                    bail!("first-child-has-prev", "first child {} of {} has a previous sibling", f + 1, p + 1);
                }
                let mut seen = vec![false; n];
                let mut cur = f;
                loop {
                    if seen[cur] {
                        bail!("child-chain-repeats", "child chain of {} visits {} twice", p + 1, cur + 1);
                    }
                    seen[cur] = true;
                    len += 1;
                    let b = lk[cur].unwrap();
                    if b[0] != Some(p) {
                        bail!("chain-member-other-parent", "{} is in the child chain of {} but reports parent {:?}", cur + 1, p + 1, b[0].map(|x| x + 1));
                    }
                    match b[2] {
                        Some(nx) => cur = nx,
                        None => break,
                    }
                }
                if Some(cur) != last {
                    bail!("chain-end-not-last-child", "child chain of {} ends at {} but last_child is {:?}", p + 1, cur + 1, last.map(|x| x + 1));
                }
            }
            if len != named_children[p] {
                bail!("chain-vs-named-children", "{} nodes name {} as parent but its child chain has {} members", named_children[p], p + 1, len);
            }
            obs += 1;
        }
        Ok(obs)
    }))
}

// ======================================================================= C02

/// Raw. Bounded walks along parent / next / previous links from every live slot.
pub fn c02_acyclic<P: Payload>(arena: &Arena<P>) -> R {
    wrap(&["C02"], "acyclic", guarded(|| {
        let s = arena.as_slice();
        let n = s.len();
        let mut obs = 0;
        for i in 0..n {
            if s[i].is_removed() {
                continue;
            }
            for (name, sel) in [("parent", 0usize), ("previous_sibling", 1), ("next_sibling", 2)] {
                let mut cur = i;
                let mut steps = 0usize;
                loop {
                    let l = five(&s[cur])[sel].1;
                    match l {
                        None => break,
                        Some(l) => {
                            let j = slot_of(l);
                            if j >= n {
                                break; // C01's business
                            }
                            steps += 1;
                            if steps >= n.max(1) {
                                bail!(format!("{}-walk-does-not-end", name), "following {} from slot {} did not reach an end within {} steps", name, i + 1, steps);
                            }
                            cur = j;
                        }
                    }
                }
                obs += 1;
            }
        }
        Ok(obs)
    }))
}

fn drain_ids<I: Iterator<Item = NodeId>>(what: &str, start: NodeId, it: I, bound: usize) -> Result<Vec<NodeId>, (String, String)> {
    let mut seen = HashSet::new();
    let mut out = Vec::new();
    for x in it.take(bound) {
        if !seen.insert(x) {
            bail!(format!("{}-yields-twice", what), "{} from {} yielded node {} twice", what, usize::from(start), usize::from(x));
        }
        out.push(x);
    }
    if out.len() >= bound {
        bail!(format!("{}-does-not-end", what), "{} from {} yielded {} items without ending", what, usize::from(start), bound);
    }
    Ok(out)
}

fn drain_edges<I: Iterator<Item = NodeEdge>>(what: &str, start: NodeId, it: I, bound: usize) -> Result<Vec<NodeEdge>, (String, String)> {
    let mut seen = HashSet::new();
    let mut out = Vec::new();
    for x in it.take(bound) {
        if !seen.insert(x) {
            bail!(format!("{}-yields-twice", what), "{} from {} yielded edge {:?} twice", what, usize::from(start), x);
        }
        out.push(x);
    }
    if out.len() >= bound {
        bail!(format!("{}-does-not-end", what), "{} from {} yielded {} items without ending", what, usize::from(start), bound);
    }
    Ok(out)
}

/// live ids straight from the arena (no model)
pub fn raw_live_ids<P: Payload>(arena: &Arena<P>) -> Vec<NodeId> {
    (1..=arena.count())
        .filter_map(|i| arena.get_node_id_at(NonZeroUsize::new(i).unwrap()))
        .collect()
}

/// Raw (bounded). Every library iterator from every start node ends and yields
/// each node / edge at most once.
#[allow(deprecated)]
pub fn c02_iterators_finite<P: Payload>(arena: &Arena<P>, starts: &[NodeId]) -> R {
    wrap(&["C02"], "iter-finite", guarded(|| {
        let bound = 2 * arena.count() + 3;
        let mut obs = 0;
        for &id in starts {
            drain_ids("ancestors", id, id.ancestors(arena), bound)?;
            drain_ids("predecessors", id, id.predecessors(arena), bound)?;
            drain_ids("preceding_siblings", id, id.preceding_siblings(arena), bound)?;
            drain_ids("following_siblings", id, id.following_siblings(arena), bound)?;
            drain_ids("children", id, id.children(arena), bound)?;
            drain_ids("children.rev", id, id.children(arena).rev(), bound)?;
            drain_ids("reverse_children", id, id.reverse_children(arena), bound)?;
            // the edge traversals first: every next() of theirs is one link step, so take(bound) really
            // bounds them; descendants() filters a traversal internally and a single next() of it could
            // spin on a cyclic structure - it is only consumed once the traversal proved finite
            drain_edges("traverse", id, id.traverse(arena), bound)?;
            drain_edges("reverse_traverse", id, id.reverse_traverse(arena), bound)?;
            drain_ids("descendants", id, id.descendants(arena), bound)?;
            // stepping
            let mut e = Some(NodeEdge::Start(id));
            let mut k = 0;
            while let Some(x) = e {
                if x == NodeEdge::End(id) {
                    break;
                }
                k += 1;
                if k > bound {
                    bail!("next_traverse-does-not-end", "stepping next_traverse from Start({}) did not reach End within {} steps", usize::from(id), bound);
                }
                e = x.next_traverse(arena);
            }
            obs += 11;
        }
        // the same through internal iteration (fold-based consumers cannot be bounded from outside:
        // only on a structure whose raw links are acyclic)
        if c02_acyclic(arena).is_ok() && c01_wellformed(arena).is_ok() {
            let stride = (starts.len() / 6).max(1);
            for &id in starts.iter().step_by(stride) {
                macro_rules! once {
                    ($name:expr, $it:expr) => {{
                        let mut seen = HashSet::new();
                        let mut dup = None;
                        let mut n = 0usize;
                        $it.for_each(|x| {
                            n += 1;
                            if n > bound {
                                panic!("for_each() does not end");
                            }
                            if !seen.insert(x) && dup.is_none() {
                                dup = Some(format!("{:?}", x));
                            }
                        });
                        if let Some(d) = dup {
                            bail!(format!("{}-for_each-yields-twice", $name), "{} from {}: for_each visited {} twice", $name, usize::from(id), d);
                        }
                    }};
                }
                once!("ancestors", id.ancestors(arena));
                once!("predecessors", id.predecessors(arena));
                once!("preceding_siblings", id.preceding_siblings(arena));
                once!("following_siblings", id.following_siblings(arena));
                once!("children", id.children(arena));
                once!("children.rev", id.children(arena).rev());
                once!("descendants", id.descendants(arena));
                once!("traverse", id.traverse(arena));
                once!("reverse_traverse", id.reverse_traverse(arena));
                // partly consumed from the back, then for_each from the front (and the reverse)
                let mut it = id.children(arena);
                let b = it.next_back();
                let mut seen: HashSet<NodeId> = b.into_iter().collect();
                let mut n = 0usize;
                let mut dup = None;
                it.for_each(|x| {
                    n += 1;
                    if n > bound {
                        panic!("for_each() does not end");
                    }
                    if !seen.insert(x) && dup.is_none() {
                        dup = Some(x);
                    }
                });
                if let Some(d) = dup {
                    bail!("children-for_each-after-next_back-yields-twice", "children of {}: next_back() then for_each visited node {} twice", usize::from(id), usize::from(d));
                }
                let mut it = id.following_siblings(arena);
                let f = it.next();
                let mut seen: HashSet<NodeId> = f.into_iter().collect();
                let mut dup = None;
                let mut n = 0usize;
                it.rev().for_each(|x| {
                    n += 1;
                    if n > bound {
                        panic!("for_each() does not end");
                    }
                    if !seen.insert(x) && dup.is_none() {
                        dup = Some(x);
                    }
                });
                if let Some(d) = dup {
                    bail!("following_siblings-rev-for_each-after-next-yields-twice", "following_siblings of {}: next() then rev().for_each visited node {} twice", usize::from(id), usize::from(d));
                }
                obs += 11;
            }
        }
        Ok(obs)
    }))
}

// ======================================================================= C09

fn ids(m: &Model, hs: &[H]) -> Vec<NodeId> {
    hs.iter().map(|h| m.nodes[*h].id).collect()
}

fn model_traverse(m: &Model, h: H, out: &mut Vec<NodeEdge>) {
    out.push(NodeEdge::Start(m.nodes[h].id));
    for c in m.children(h) {
        model_traverse(m, *c, out);
    }
    out.push(NodeEdge::End(m.nodes[h].id));
}

/// advance j items, clone, then drain both: (rest of the clone, rest of the original)
fn clone_mid<X, I: Iterator<Item = X> + Clone>(mut it: I, j: usize, bound: usize) -> (Vec<X>, Vec<X>) {
    for _ in 0..j {
        if it.next().is_none() {
            break;
        }
    }
    let c = it.clone();
    (c.take(bound).collect(), it.take(bound).collect())
}

fn cmp_clone<X: PartialEq + std::fmt::Debug + Clone>(what: &str, start: NodeId, j: usize, got: (Vec<X>, Vec<X>), exp: &[X]) -> Result<(), (String, String)> {
    let rest: Vec<X> = exp.iter().skip(j).cloned().collect();
    if got.0 != rest || got.1 != rest {
        bail!(format!("{}-clone-mid-iteration", what), "{} from node {}: after {} items a clone yields {:?} and the original {:?}; the rest of the sequence is {:?}", what, usize::from(start), j, got.0, got.1, rest);
    }
    Ok(())
}

/// Internal iteration (fold / count / last - the consumers behind for_each, sum, collect into sets ...)
/// must agree with external iteration, also on a partly consumed iterator.
fn internal_iter<X: PartialEq + std::fmt::Debug + Clone, I: Iterator<Item = X> + Clone>(what: &str, start: NodeId, fresh: &dyn Fn() -> I, exp: &[X], bound: usize) -> Result<(), (String, String)> {
    let n = exp.len();
    let mut js = vec![0usize, n];
    if n > 1 {
        js.push(1 + (usize::from(start) * 3) % (n - 1));
    }
    for j in js {
        let mut it = fresh();
        for _ in 0..j {
            it.next();
        }
        let rest: Vec<X> = exp[j.min(n)..].to_vec();
        let folded = it.clone().fold(Vec::new(), |mut v, x| {
            if v.len() > bound {
                panic!("fold() does not end");
            }
            v.push(x);
            v
        });
        if folded != rest {
            bail!(format!("{}-fold", what), "{} from node {}: after {} next() calls fold()/for_each visits {:?}, the rest of the sequence is {:?}", what, usize::from(start), j, folded, rest);
        }
        let c = it.clone().count();
        if c != rest.len() {
            bail!(format!("{}-count", what), "{} from node {}: after {} next() calls count() = {}, {} items remain", what, usize::from(start), j, c, rest.len());
        }
        let l = it.clone().last();
        if l.as_ref() != rest.last() {
            bail!(format!("{}-last", what), "{} from node {}: after {} next() calls last() = {:?}, expected {:?}", what, usize::from(start), j, l, rest.last());
        }
        if let Some(k) = rest.len().checked_sub(1) {
            let nth = it.clone().nth(k);
            if nth.as_ref() != rest.last() {
                bail!(format!("{}-nth", what), "{} from node {}: after {} next() calls nth({}) = {:?}, expected {:?}", what, usize::from(start), j, k, nth, rest.last());
            }
            // nth in the middle, then the iteration continues right behind it
            let mid = k / 2;
            let mut it2 = it.clone();
            let got = it2.nth(mid);
            let after = it2.next();
            if got.as_ref() != rest.get(mid) || after.as_ref() != rest.get(mid + 1) {
                bail!(format!("{}-nth-then-next", what), "{} from node {}: after {} next() calls nth({}) = {:?} followed by next() = {:?}; expected {:?} then {:?}", what, usize::from(start), j, mid, got, after, rest.get(mid), rest.get(mid + 1));
            }
        }
        // nth / skip past the end reports the end, and the iterator stays exhausted afterwards
        for over in [rest.len(), rest.len() + 2] {
            let mut it3 = it.clone();
            let got = it3.nth(over);
            let again = (it3.next(), it3.next());
            if got.is_some() || again.0.is_some() || again.1.is_some() {
                bail!(format!("{}-nth-past-end", what), "{} from node {}: after {} next() calls nth({}) = {:?} with {} items left, and next() afterwards gives {:?}", what, usize::from(start), j, over, got, rest.len(), again);
            }
        }
        let skipped: Vec<X> = it.clone().skip(1).step_by(2).take(bound).collect();
        let exp_skipped: Vec<X> = rest.iter().skip(1).step_by(2).cloned().collect();
        if skipped != exp_skipped {
            bail!(format!("{}-skip-step_by", what), "{} from node {}: skip(1).step_by(2) yields {:?}, expected {:?}", what, usize::from(start), skipped, exp_skipped);
        }
        // the searching consumers (any / all / find / position / find_map, also through by_ref): they stop right
        // BEHIND the element that decided them, and report the end when nothing decides them
        let hsize = it.size_hint();
        if hsize.0 > rest.len() || hsize.1.map_or(false, |u| u < rest.len()) {
            bail!(format!("{}-size_hint", what), "{} from node {}: after {} next() calls size_hint() = {:?} but {} items remain", what, usize::from(start), j, hsize, rest.len());
        }
        let mut targets: Vec<usize> = Vec::new();
        if !rest.is_empty() {
            targets.push(0);
            targets.push(rest.len() - 1);
            targets.push(rest.len() / 2);
        }
        for &t in &targets {
            // the first occurrence decides (sequences of edges / ids have no repeats, but stay general)
            let first = rest.iter().position(|x| *x == rest[t]).unwrap();
            let after: Option<&X> = rest.get(first + 1);
            macro_rules! search {
                ($name:expr, $call:expr, $expect:expr) => {{
                    let mut s = it.clone();
                    let mut steps = 0usize;
                    #[allow(unused_mut)]
                    let mut pred = |x: &X| {
                        steps += 1;
                        if steps > bound {
                            panic!("a searching consumer does not end");
                        }
                        *x == rest[t]
                    };
                    let got = $call(&mut s, &mut pred);
                    let next = s.next();
                    if got != $expect || next.as_ref() != after {
                        bail!(format!("{}-{}", what, $name), "{} from node {}: after {} next() calls `{}` looking for {:?} returned {:?} and the following next() = {:?}; the remaining sequence is {:?}", what, usize::from(start), j, $name, rest[t], got, next, rest);
                    }
                }};
            }
            search!("any", |s: &mut I, p: &mut dyn FnMut(&X) -> bool| format!("{:?}", s.any(|x| p(&x))), format!("{:?}", true));
            search!("by_ref-any", |s: &mut I, p: &mut dyn FnMut(&X) -> bool| format!("{:?}", s.by_ref().any(|x| p(&x))), format!("{:?}", true));
            search!("all", |s: &mut I, p: &mut dyn FnMut(&X) -> bool| format!("{:?}", s.all(|x| !p(&x))), format!("{:?}", false));
            search!("find", |s: &mut I, p: &mut dyn FnMut(&X) -> bool| format!("{:?}", s.find(|x| p(x))), format!("{:?}", Some(rest[t].clone())));
            search!("position", |s: &mut I, p: &mut dyn FnMut(&X) -> bool| format!("{:?}", s.position(|x| p(&x))), format!("{:?}", Some(first)));
            search!("find_map", |s: &mut I, p: &mut dyn FnMut(&X) -> bool| format!("{:?}", s.find_map(|x| if p(&x) { Some(7u8) } else { None })), format!("{:?}", Some(7u8)));
            search!("skip_while", |s: &mut I, p: &mut dyn FnMut(&X) -> bool| format!("{:?}", s.by_ref().skip_while(|x| !p(x)).next()), format!("{:?}", Some(rest[t].clone())));
        }
        {
            // nothing matches: every element is looked at once, then the end - and the iterator stays at its end
            let mut s = it.clone();
            let mut seen = 0usize;
            let r = (s.any(|_| { seen += 1; seen > bound }), s.next());
            if r.0 || r.1.is_some() || seen != rest.len() {
                bail!(format!("{}-any-none", what), "{} from node {}: after {} next() calls any(never) looked at {} items of {}, returned {} and next() afterwards = {:?}", what, usize::from(start), j, seen, rest.len(), r.0, r.1);
            }
            let mut s = it.clone();
            let r = (s.find(|_| false), s.position(|_| false), s.next());
            if r.0.is_some() || r.1.is_some() || r.2.is_some() {
                bail!(format!("{}-find-none", what), "{} from node {}: find/position with a predicate that never holds returned {:?} / {:?}, next() afterwards = {:?}", what, usize::from(start), r.0, r.1, r.2);
            }
        }
    }
    Ok(())
}

fn cmp_seq<T: PartialEq + std::fmt::Debug>(what: &str, start: NodeId, got: &[T], exp: &[T]) -> Result<(), (String, String)> {
    if got != exp {
        bail!(format!("{}-sequence", what), "{} from node {}: yielded {:?}, the forest defines {:?}", what, usize::from(start), got, exp);
    }
    Ok(())
}

fn us(v: &[NodeId]) -> Vec<usize> {
    v.iter().map(|i| usize::from(*i)).collect()
}

/// Every traversal from every live start node against the sequences the model defines.
#[allow(deprecated)]
pub fn c09_traversals<P: Payload>(st: &State<P>) -> R {
    wrap(&["C09"], "traverse", guarded(|| {
        let m = &st.model;
        let a = &st.arena;
        let bound = 2 * a.count() + 3;
        let mut obs = 0u64;
        let live = m.live_handles();
        for &h in &live {
            let id = m.nodes[h].id;
            // ancestors
            let mut exp = vec![h];
            let mut cur = h;
            while let Some(p) = m.parent(cur) {
                exp.push(p);
                cur = p;
            }
            let got = drain_ids("ancestors", id, id.ancestors(a), bound)?;
            cmp_seq("ancestors", id, &us(&got), &us(&ids(m, &exp)))?;
            // predecessors
            let mut exp = vec![h];
            let mut cur = h;
            loop {
                let l = m.links(cur);
                match l.prev.or(l.parent) {
                    Some(x) => {
                        exp.push(x);
                        cur = x;
                    }
                    None => break,
                }
            }
            let got = drain_ids("predecessors", id, id.predecessors(a), bound)?;
            cmp_seq("predecessors", id, &us(&got), &us(&ids(m, &exp)))?;
            // siblings
            let sib = m.siblings(h);
            let (_, i) = m.pos(h);
            let exp: Vec<H> = sib[..=i].iter().rev().copied().collect();
            let got = drain_ids("preceding_siblings", id, id.preceding_siblings(a), bound)?;
            cmp_seq("preceding_siblings", id, &us(&got), &us(&ids(m, &exp)))?;
            let exp: Vec<H> = sib[i..].to_vec();
            let got = drain_ids("following_siblings", id, id.following_siblings(a), bound)?;
            cmp_seq("following_siblings", id, &us(&got), &us(&ids(m, &exp)))?;
            // children
            let ks = m.children(h).to_vec();
            let got = drain_ids("children", id, id.children(a), bound)?;
            cmp_seq("children", id, &us(&got), &us(&ids(m, &ks)))?;
            let rk: Vec<H> = ks.iter().rev().copied().collect();
            let got = drain_ids("reverse_children", id, id.reverse_children(a), bound)?;
            cmp_seq("reverse_children", id, &us(&got), &us(&ids(m, &rk)))?;
            // descendants
            let exp = m.subtree(h);
            let got = drain_ids("descendants", id, id.descendants(a), bound)?;
            cmp_seq("descendants", id, &us(&got), &us(&ids(m, &exp)))?;
            // traverse / reverse_traverse
            let mut exp = Vec::new();
            model_traverse(m, h, &mut exp);
            let got = drain_edges("traverse", id, id.traverse(a), bound)?;
            cmp_seq("traverse", id, &got, &exp)?;
            let mut rexp = exp.clone();
            rexp.reverse();
            let got = drain_edges("reverse_traverse", id, id.reverse_traverse(a), bound)?;
            cmp_seq("reverse_traverse", id, &got, &rexp)?;
            // internal iteration agrees with external iteration
            {
                let d: Vec<NodeId> = ids(m, &m.subtree(h));
                internal_iter("descendants", id, &|| id.descendants(a), &d, bound)?;
                internal_iter("traverse", id, &|| id.traverse(a), &exp, bound)?;
                internal_iter("reverse_traverse", id, &|| id.reverse_traverse(a), &rexp, bound)?;
                let sib = m.siblings(h);
                let (_, i) = m.pos(h);
                let f: Vec<NodeId> = sib[i..].iter().map(|x| m.nodes[*x].id).collect();
                internal_iter("following_siblings", id, &|| id.following_siblings(a), &f, bound)?;
                let pr: Vec<NodeId> = sib[..=i].iter().rev().map(|x| m.nodes[*x].id).collect();
                internal_iter("preceding_siblings", id, &|| id.preceding_siblings(a), &pr, bound)?;
                let k: Vec<NodeId> = ids(m, m.children(h));
                internal_iter("children", id, &|| id.children(a), &k, bound)?;
                let mut rk = k.clone();
                rk.reverse();
                internal_iter("children.rev", id, &|| id.children(a).rev(), &rk, bound)?;
                internal_iter("reverse_children", id, &|| id.reverse_children(a), &rk, bound)?;
                let mut anc = vec![id];
                let mut cur = h;
                while let Some(p) = m.parent(cur) {
                    anc.push(m.nodes[p].id);
                    cur = p;
                }
                internal_iter("ancestors", id, &|| id.ancestors(a), &anc, bound)?;
                obs += 9;
            }
            // a clone taken in the middle of an iteration continues where the original is
            {
                let j = (h * 7 + exp.len()) % (exp.len() + 1);
                cmp_clone("traverse", id, j, clone_mid(id.traverse(a), j, bound), &exp)?;
                cmp_clone("reverse_traverse", id, j, clone_mid(id.reverse_traverse(a), j, bound), &rexp)?;
                let d: Vec<NodeId> = ids(m, &m.subtree(h));
                let j = (h * 5 + 1) % (d.len() + 1);
                cmp_clone("descendants", id, j, clone_mid(id.descendants(a), j, bound), &d)?;
                let sib = m.siblings(h);
                let (_, i) = m.pos(h);
                let f: Vec<NodeId> = sib[i..].iter().map(|x| m.nodes[*x].id).collect();
                let j = (h + 1) % (f.len() + 1);
                cmp_clone("following_siblings", id, j, clone_mid(id.following_siblings(a), j, bound), &f)?;
                let k: Vec<NodeId> = ids(m, m.children(h));
                let j = (h + 2) % (k.len() + 1);
                cmp_clone("children", id, j, clone_mid(id.children(a), j, bound), &k)?;
                let mut anc = vec![id];
                let mut cur = h;
                while let Some(p) = m.parent(cur) {
                    anc.push(m.nodes[p].id);
                    cur = p;
                }
                let j = (h + 1) % (anc.len() + 1);
                cmp_clone("ancestors", id, j, clone_mid(id.ancestors(a), j, bound), &anc)?;
                obs += 6;
            }
            // stepping reproduces the two sequences
            let mut got = vec![NodeEdge::Start(id)];
            let mut e = NodeEdge::Start(id);
            while e != NodeEdge::End(id) {
                match e.next_traverse(a) {
                    Some(x) => {
                        got.push(x);
                        e = x;
                    }
                    None => break,
                }
                if got.len() > bound {
                    break;
                }
            }
            cmp_seq("next_traverse-stepping", id, &got, &exp)?;
            let mut got = vec![NodeEdge::End(id)];
            let mut e = NodeEdge::End(id);
            while e != NodeEdge::Start(id) {
                match e.prev_traverse(a) {
                    Some(x) => {
                        got.push(x);
                        e = x;
                    }
                    None => break,
                }
                if got.len() > bound {
                    break;
                }
            }
            cmp_seq("prev_traverse-stepping", id, &got, &rexp)?;
            obs += 11;
        }
        // clone_from between iterators over two different arenas (an edited copy and the original)
        {
            let mut b = st.arena.clone();
            for h in live.iter().rev().take(3) {
                m.nodes[*h].id.detach(&mut b);
            }
            for &h in live.iter().take(10) {
                let id = m.nodes[h].id;
                let mut t = id.traverse(&b);
                t.clone_from(&id.traverse(a));
                let mut d = id.descendants(&b);
                d.clone_from(&id.descendants(a));
                let mut an = id.ancestors(&b);
                an.clone_from(&id.ancestors(a));
                let mut rt = id.reverse_traverse(&b);
                rt.clone_from(&id.reverse_traverse(a));
                let ok = t.take(bound).eq(id.traverse(a).take(bound))
                    && d.take(bound).eq(id.descendants(a).take(bound))
                    && an.take(bound).eq(id.ancestors(a).take(bound))
                    && rt.take(bound).eq(id.reverse_traverse(a).take(bound));
                if !ok {
                    bail!("iterator-clone_from", "an iterator over an edited copy of the arena that was overwritten with clone_from(&iterator over the original, start node {}) does not yield the original's sequence", usize::from(id));
                }
                obs += 4;
            }
        }
        // exhausted iterators stay exhausted (they are FusedIterator)
        for &h in live.iter().take(12) {
            let id = m.nodes[h].id;
            macro_rules! fused {
                ($name:expr, $it:expr) => {{
                    let mut it = $it;
                    let mut k = 0;
                    while it.next().is_some() {
                        k += 1;
                        if k > bound {
                            break;
                        }
                    }
                    if it.next().is_some() || it.next().is_some() {
                        bail!(format!("{}-not-fused", $name), "{} from node {} yields an item again after it returned None", $name, usize::from(id));
                    }
                }};
            }
            fused!("ancestors", id.ancestors(a));
            fused!("predecessors", id.predecessors(a));
            fused!("preceding_siblings", id.preceding_siblings(a));
            fused!("following_siblings", id.following_siblings(a));
            fused!("children", id.children(a));
            fused!("reverse_children", id.reverse_children(a));
            fused!("descendants", id.descendants(a));
            fused!("traverse", id.traverse(a));
            fused!("reverse_traverse", id.reverse_traverse(a));
            obs += 9;
        }
        // next/prev are inverse on every edge of the whole forest
        for &h in &live {
            let id = m.nodes[h].id;
            for e in [NodeEdge::Start(id), NodeEdge::End(id)] {
                if let Some(f) = e.next_traverse(a) {
                    if f.prev_traverse(a) != Some(e) {
                        bail!("next-prev-not-inverse", "next_traverse({:?}) = {:?} but prev_traverse of that is {:?}", e, f, f.prev_traverse(a));
                    }
                }
                if let Some(f) = e.prev_traverse(a) {
                    if f.next_traverse(a) != Some(e) {
                        bail!("prev-next-not-inverse", "prev_traverse({:?}) = {:?} but next_traverse of that is {:?}", e, f, f.next_traverse(a));
                    }
                }
                // expected value of next_traverse from the model
                let l = m.links(h);
                let exp_next = match e {
                    NodeEdge::Start(_) => Some(match l.first {
                        Some(c) => NodeEdge::Start(m.nodes[c].id),
                        None => NodeEdge::End(id),
                    }),
                    NodeEdge::End(_) => match l.next {
                        Some(x) => Some(NodeEdge::Start(m.nodes[x].id)),
                        None => l.parent.map(|p| NodeEdge::End(m.nodes[p].id)),
                    },
                };
                if e.next_traverse(a) != exp_next {
                    bail!("next_traverse-value", "next_traverse({:?}) = {:?}, the forest defines {:?}", e, e.next_traverse(a), exp_next);
                }
                let exp_prev = match e {
                    NodeEdge::End(_) => Some(match l.last {
                        Some(c) => NodeEdge::End(m.nodes[c].id),
                        None => NodeEdge::Start(id),
                    }),
                    NodeEdge::Start(_) => match l.prev {
                        Some(x) => Some(NodeEdge::End(m.nodes[x].id)),
                        None => l.parent.map(|p| NodeEdge::Start(m.nodes[p].id)),
                    },
                };
                if e.prev_traverse(a) != exp_prev {
                    bail!("prev_traverse-value", "prev_traverse({:?}) = {:?}, the forest defines {:?}", e, e.prev_traverse(a), exp_prev);
                }
                obs += 4;
            }
        }
        Ok(obs)
    }))
}

// ======================================================================= C10

#[derive(Clone, Copy, Debug, PartialEq, Eq)]
pub enum DeKind {
    Children,
    Preceding,
    Following,
}

fn de_pull<P: Payload>(a: &Arena<P>, id: NodeId, kind: DeKind, pattern: &[bool]) -> Vec<(bool, Option<NodeId>)> {
    // true = front pull, false = back pull
    macro_rules! run {
        ($it:expr) => {{
            let mut it = $it;
            pattern
                .iter()
                .map(|front| (*front, if *front { it.next() } else { it.next_back() }))
                .collect()
        }};
    }
    match kind {
        DeKind::Children => run!(id.children(a)),
        DeKind::Preceding => run!(id.preceding_siblings(a)),
        DeKind::Following => run!(id.following_siblings(a)),
    }
}

pub struct C10Stats {
    pub patterns: u64,
    pub pulls: u64,
    pub classes: Vec<&'static str>,
}

/// All (or a sample of) front/back pull patterns on the three double-ended iterators.
pub fn c10_double_ended<P: Payload>(st: &State<P>, rng: &mut Rng, stats: &mut C10Stats) -> R {
    let r = guarded(|| {
        let m = &st.model;
        let a = &st.arena;
        let mut obs = 0u64;
        let mut patterns = 0u64;
        let mut pulls = 0u64;
        let mut classes = Vec::new();
        // an edited copy of the arena (same ids, different links): an iterator over it that is overwritten
        // with clone_from(&iterator over the original) must behave like the original's iterator
        let edited = {
            let mut b = st.arena.clone();
            let live = m.live_handles();
            for h in live.iter().rev().take(3) {
                m.nodes[*h].id.detach(&mut b);
            }
            b
        };
        for h in m.live_handles() {
            let id = m.nodes[h].id;
            classes.push(crate::exec::node_class(m, h));
            let sib = m.siblings(h);
            let (_, i) = m.pos(h);
            for kind in [DeKind::Children, DeKind::Preceding, DeKind::Following] {
                let f: Vec<NodeId> = match kind {
                    DeKind::Children => ids(m, m.children(h)),
                    DeKind::Preceding => sib[..=i].iter().rev().map(|x| m.nodes[*x].id).collect(),
                    DeKind::Following => sib[i..].iter().map(|x| m.nodes[*x].id).collect(),
                };
                let len = f.len() + 2;
                let mut pats: Vec<Vec<bool>> = Vec::new();
                if f.len() <= 5 {
                    for bits in 0..(1u32 << len) {
                        pats.push((0..len).map(|k| bits >> k & 1 == 1).collect());
                    }
                } else {
                    pats.push(vec![true; len]);
                    pats.push(vec![false; len]);
                    pats.push((0..len).map(|k| k % 2 == 0).collect());
                    pats.push((0..len).map(|k| k % 2 == 1).collect());
                    for _ in 0..12 {
                        pats.push((0..len).map(|_| rng.chance(1, 2)).collect());
                    }
                }
                for pat in &pats {
                    let got = de_pull(a, id, kind, pat);
                    let (mut fi, mut bi) = (0usize, 0usize);
                    for (k, (front, item)) in got.iter().enumerate() {
                        let exp = if fi + bi >= f.len() {
                            None
                        } else if *front {
                            fi += 1;
                            Some(f[fi - 1])
                        } else {
                            bi += 1;
                            Some(f[f.len() - bi])
                        };
                        if *item != exp {
                            let pat_s: String = pat.iter().map(|b| if *b { 'F' } else { 'B' }).collect();
                            bail!(
                                format!("{:?}-{}", kind, if *front { "front-pull" } else { "back-pull" }),
                                "{:?} of node {} ({}), pull pattern {} : pull #{} ({}) returned {:?}, the laws require {:?}; forward sequence is {:?}",
                                kind, usize::from(id), crate::exec::node_class(m, h), pat_s, k + 1,
                                if *front { "next" } else { "next_back" },
                                item.map(usize::from), exp.map(usize::from), us(&f)
                            );
                        }
                        pulls += 1;
                    }
                    patterns += 1;
                }
                // after a few pulls from both ends, internal iteration (fold / rfold) visits exactly the middle
                for (nf, nb) in [(0usize, 0usize), (1, 0), (0, 1), (1, 1), (2, 1)] {
                    if nf + nb > f.len() {
                        continue;
                    }
                    let mid: Vec<NodeId> = f[nf..f.len() - nb].to_vec();
                    let mut rmid = mid.clone();
                    rmid.reverse();
                    macro_rules! check {
                        ($it:expr) => {{
                            let mut it = $it;
                            for _ in 0..nf {
                                it.next();
                            }
                            for _ in 0..nb {
                                it.next_back();
                            }
                            let fw = it.clone().fold(Vec::new(), |mut v, x| {
                                if v.len() > 4 * a.count() + 8 {
                                    panic!("fold() does not end");
                                }
                                v.push(x);
                                v
                            });
                            let bw = it.clone().rfold(Vec::new(), |mut v, x| {
                                if v.len() > 4 * a.count() + 8 {
                                    panic!("rfold() does not end");
                                }
                                v.push(x);
                                v
                            });
                            // `.rev()` written directly on the partly consumed iterator (whatever method that resolves to)
                            let rv: Vec<NodeId> = it.clone().rev().take(4 * a.count() + 8).collect();
                            let cnt = it.count();
                            (fw, bw, cnt, rv)
                        }};
                    }
                    let (fw, bw, cnt, rv) = match kind {
                        DeKind::Children => check!(id.children(a)),
                        DeKind::Preceding => check!(id.preceding_siblings(a)),
                        DeKind::Following => check!(id.following_siblings(a)),
                    };
                    if rv != rmid {
                        bail!(format!("{:?}-rev-after-pulls", kind), "{:?} of node {} after {} front and {} back pulls: `.rev()` on the iterator yields {:?}; the remaining elements, reversed, are {:?}", kind, usize::from(id), nf, nb, us(&rv), us(&rmid));
                    }
                    if fw != mid || bw != rmid || cnt != mid.len() {
                        bail!(format!("{:?}-internal-iteration", kind), "{:?} of node {} after {} front and {} back pulls: fold visits {:?}, rfold visits {:?}, count() = {}; the remaining elements are {:?}", kind, usize::from(id), nf, nb, us(&fw), us(&bw), cnt, us(&mid));
                    }
                    obs += 1;
                }
                // clone_from across arenas
                {
                    let got: Vec<NodeId> = match kind {
                        DeKind::Children => {
                            let mut it = id.children(&edited);
                            it.clone_from(&id.children(a));
                            it.take(2 * a.count() + 3).collect()
                        }
                        DeKind::Preceding => {
                            let mut it = id.preceding_siblings(&edited);
                            it.clone_from(&id.preceding_siblings(a));
                            it.take(2 * a.count() + 3).collect()
                        }
                        DeKind::Following => {
                            let mut it = id.following_siblings(&edited);
                            it.clone_from(&id.following_siblings(a));
                            it.take(2 * a.count() + 3).collect()
                        }
                    };
                    if got != f {
                        bail!(format!("{:?}-clone_from", kind), "{:?} of node {}: an iterator over an edited copy of the arena, overwritten with clone_from(&iterator over the original), yields {:?}; the original's forward sequence is {:?}", kind, usize::from(id), us(&got), us(&f));
                    }
                    obs += 1;
                }
                // nth_back inside and past the range
                {
                    macro_rules! nb {
                        ($it:expr, $k:expr) => {{
                            let mut it = $it;
                            let got = it.nth_back($k);
                            let rest: Vec<NodeId> = it.take(2 * a.count() + 3).collect();
                            (got, rest)
                        }};
                    }
                    for k in [0usize, f.len() / 2, f.len().saturating_sub(1), f.len(), f.len() + 1] {
                        let (got, rest) = match kind {
                            DeKind::Children => nb!(id.children(a), k),
                            DeKind::Preceding => nb!(id.preceding_siblings(a), k),
                            DeKind::Following => nb!(id.following_siblings(a), k),
                        };
                        let exp = if k < f.len() { Some(f[f.len() - 1 - k]) } else { None };
                        let exp_rest: Vec<NodeId> = if k < f.len() { f[..f.len() - 1 - k].to_vec() } else { Vec::new() };
                        if got != exp || rest != exp_rest {
                            bail!(format!("{:?}-nth_back", kind), "{:?} of node {}: nth_back({}) = {:?} and then the front yields {:?}; the laws require {:?} and {:?} (forward sequence {:?})", kind, usize::from(id), k, got.map(usize::from), us(&rest), exp.map(usize::from), us(&exp_rest), us(&f));
                        }
                        obs += 1;
                    }
                }
                // rev() is the forward sequence reversed
                let bound = 2 * a.count() + 3;
                let got: Vec<NodeId> = match kind {
                    DeKind::Children => id.children(a).rev().take(bound).collect(),
                    DeKind::Preceding => id.preceding_siblings(a).rev().take(bound).collect(),
                    DeKind::Following => id.following_siblings(a).rev().take(bound).collect(),
                };
                let mut rf = f.clone();
                rf.reverse();
                if got != rf {
                    bail!(format!("{:?}-rev", kind), "{:?} of node {} ({}): rev() yielded {:?}, forward sequence reversed is {:?}", kind, usize::from(id), crate::exec::node_class(m, h), us(&got), us(&rf));
                }
                obs += 1;
            }
        }
        Ok((obs, patterns, pulls, classes))
    });
    match r {
        Ok(Ok((obs, p, q, c))) => {
            stats.patterns += p;
            stats.pulls += q;
            stats.classes = c;
            Ok(obs + p)
        }
        Ok(Err((kind, detail))) => Err(Finding::new(&["C10"], format!("double-ended/{}", kind), detail)),
        Err(p) => Err(Finding::new(&["C10", "C05"], "double-ended/panic".into(), p)),
    }
}

/// Raw. The DoubleEndedIterator laws judged against the iterator's own forward sequence: usable on
/// an arena the model no longer follows (start nodes and sequences come from the arena itself).
pub fn c10_double_ended_raw<P: Payload>(arena: &Arena<P>, starts: &[NodeId], rng: &mut Rng) -> R {
    let r = guarded(|| {
        let bound = 2 * arena.count() + 3;
        let mut obs = 0u64;
        for &id in starts {
            for kind in [DeKind::Children, DeKind::Preceding, DeKind::Following] {
                let f: Vec<NodeId> = match kind {
                    DeKind::Children => id.children(arena).take(bound).collect(),
                    DeKind::Preceding => id.preceding_siblings(arena).take(bound).collect(),
                    DeKind::Following => id.following_siblings(arena).take(bound).collect(),
                };
                if f.len() >= bound {
                    continue; // not finite: C02's business
                }
                let got: Vec<NodeId> = match kind {
                    DeKind::Children => id.children(arena).rev().take(bound).collect(),
                    DeKind::Preceding => id.preceding_siblings(arena).rev().take(bound).collect(),
                    DeKind::Following => id.following_siblings(arena).rev().take(bound).collect(),
                };
                let mut rf = f.clone();
                rf.reverse();
                if got != rf {
                    bail!(format!("{:?}-rev-vs-forward", kind), "{:?} of node {}: forward iteration yields {:?} but rev() yields {:?}", kind, usize::from(id), us(&f), us(&got));
                }
                let len = f.len() + 2;
                let mut pats: Vec<Vec<bool>> = vec![(0..len).map(|k| k % 2 == 0).collect(), (0..len).map(|k| k % 2 == 1).collect()];
                for _ in 0..6 {
                    pats.push((0..len).map(|_| rng.chance(1, 2)).collect());
                }
                for pat in &pats {
                    let pulled = de_pull(arena, id, kind, pat);
                    let (mut fi, mut bi) = (0usize, 0usize);
                    for (k, (front, item)) in pulled.iter().enumerate() {
                        let exp = if fi + bi >= f.len() {
                            None
                        } else if *front {
                            fi += 1;
                            Some(f[fi - 1])
                        } else {
                            bi += 1;
                            Some(f[f.len() - bi])
                        };
                        if *item != exp {
                            let pat_s: String = pat.iter().map(|b| if *b { 'F' } else { 'B' }).collect();
                            bail!(format!("{:?}-{}-vs-forward", kind, if *front { "front-pull" } else { "back-pull" }), "{:?} of node {}, pull pattern {}: pull #{} returned {:?}, the laws require {:?}; its own forward sequence is {:?}", kind, usize::from(id), pat_s, k + 1, item.map(usize::from), exp.map(usize::from), us(&f));
                        }
                    }
                    obs += 1;
                }
            }
        }
        Ok(obs)
    });
    match r {
        Ok(Ok(n)) => Ok(n),
        Ok(Err((kind, detail))) => Err(Finding::new(&["C10"], format!("double-ended/{}", kind), detail)),
        Err(p) => Err(Finding::new(&["C10", "C05"], "double-ended/panic".into(), p)),
    }
}

// ======================================================================= C11

pub fn c11_lookups<P: Payload>(st: &mut State<P>, foreign: &Arena<P>) -> R {
    let m = st.model.clone();
    let arena = &mut st.arena;
    wrap(&["C11"], "lookup", guarded(move || {
        let n = arena.count();
        let mut obs = 0u64;
        if arena.iter().count() != n || arena.as_slice().len() != n {
            bail!("count", "count() = {}, iter().count() = {}, as_slice().len() = {}", n, arena.iter().count(), arena.as_slice().len());
        }
        if arena.is_empty() != (n == 0) {
            bail!("is_empty", "is_empty() = {} with count() = {}", arena.is_empty(), n);
        }
        if n != m.slot_count() {
            bail!("count-vs-issued", "count() = {} but {} slots were issued", n, m.slot_count());
        }
        for slot in 0..n {
            let pos = NonZeroUsize::new(slot + 1).unwrap();
            let h = m.slot_cur[slot];
            let live = h.map_or(false, |h| m.is_live(h));
            let at = arena.get_node_id_at(pos);
            if !live {
                if at.is_some() {
                    bail!("get_node_id_at-removed", "get_node_id_at({}) = {:?} for a removed slot", slot + 1, at);
                }
                obs += 1;
                continue;
            }
            let id = m.nodes[h.unwrap()].id;
            if at != Some(id) {
                bail!("get_node_id_at", "get_node_id_at({}) = {:?}, the id issued for the live node there is {:?}", slot + 1, at, id);
            }
            if usize::from(id) != slot + 1 || NonZeroUsize::from(id) != pos || id.to_string() != (slot + 1).to_string() {
                bail!("conversions", "usize/NonZeroUsize/Display of id at position {} give {} / {} / {}", slot + 1, usize::from(id), NonZeroUsize::from(id), id);
            }
            let p_slice = &arena.as_slice()[slot] as *const Node<P>;
            let p_get = match arena.get(id) {
                Some(r) => r as *const Node<P>,
                None => bail!("get-none", "get(id) = None for the live node at position {}", slot + 1),
            };
            let p_idx = &arena[id] as *const Node<P>;
            let p_iter = arena.iter().nth(slot).unwrap() as *const Node<P>;
            let p_mut = match arena.get_mut(id) {
                Some(r) => r as *const Node<P>,
                None => bail!("get_mut-none", "get_mut(id) = None for the live node at position {}", slot + 1),
            };
            let p_idxm = &mut arena[id] as *mut Node<P> as *const Node<P>;
            if !(p_slice == p_get && p_get == p_idx && p_idx == p_mut && p_mut == p_idxm && p_iter == p_slice) {
                bail!("paths-disagree", "position {}: as_slice/get/Index/iter/get_mut/IndexMut address {:?} {:?} {:?} {:?} {:?} {:?}", slot + 1, p_slice, p_get, p_idx, p_iter, p_mut, p_idxm);
            }
            let back = arena.get_node_id(&arena.as_slice()[slot]);
            if back != Some(id) {
                bail!("get_node_id", "get_node_id(node at position {}) = {:?}, expected {:?}", slot + 1, back, id);
            }
            obs += 6;
        }
        // out-of-range positions
        for extra in [1usize, 2, 7, 1000] {
            let pos = NonZeroUsize::new(n + extra).unwrap();
            if arena.get_node_id_at(pos).is_some() {
                bail!("get_node_id_at-out-of-range", "get_node_id_at({}) is Some with count() = {}", n + extra, n);
            }
            obs += 1;
        }
        if arena.get_node_id_at(NonZeroUsize::new(usize::MAX).unwrap()).is_some() {
            bail!("get_node_id_at-out-of-range", "get_node_id_at(usize::MAX) is Some");
        }
        // positions whose LOW bits name a slot of this arena (a narrowed index type would find it)
        for shift in [8u32, 15, 16, 24, 31, 32, 33, 48, 63] {
            if shift >= usize::BITS {
                continue;
            }
            for low in [1usize, n / 2 + 1, n.max(1)] {
                let p = (1usize << shift).wrapping_add(low);
                if p <= n || p == 0 {
                    continue;
                }
                if let Some(id) = arena.get_node_id_at(NonZeroUsize::new(p).unwrap()) {
                    bail!("get_node_id_at-out-of-range", "get_node_id_at(2^{} + {}) = {:?} with count() = {}", shift, low, id, n);
                }
                obs += 1;
            }
        }
        // out-of-range ids, obtained legitimately from a clone grown further
        let mut bigger = arena.clone();
        let mut beyond = Vec::new();
        let mut guard = 0;
        while beyond.len() < 3 && guard < n + 8 {
            let id = bigger.new_node(P::make(u64::MAX, 0));
            if usize::from(id) > n {
                beyond.push(id);
            }
            guard += 1;
        }
        for id in &beyond {
            if arena.get(*id).is_some() || arena.get_mut(*id).is_some() {
                bail!("get-out-of-range", "get/get_mut of an id at position {} is Some with count() = {}", usize::from(*id), n);
            }
            obs += 2;
        }
        // nodes not stored in this arena
        for node in bigger.iter().chain(foreign.iter()) {
            if let Some(x) = arena.get_node_id(node) {
                bail!("get_node_id-foreign", "get_node_id of a node stored in another arena returned {:?}", x);
            }
            obs += 1;
        }
        if n > 0 {
            let local = arena.as_slice()[n / 2].clone();
            if let Some(x) = arena.get_node_id(&local) {
                bail!("get_node_id-foreign", "get_node_id of a node copy on the stack returned {:?}", x);
            }
            let boxed = Box::new(arena.as_slice()[0].clone());
            if let Some(x) = arena.get_node_id(&boxed) {
                bail!("get_node_id-foreign", "get_node_id of a boxed node copy returned {:?}", x);
            }
            obs += 2;
        }
        Ok(obs)
    }))
}

// ======================================================================= C06

/// `is_removed` of every id ever issued since the last clear.
pub fn c06_history_ids<P: Payload>(st: &State<P>) -> R {
    wrap(&["C06"], "ids", guarded(|| {
        let m = &st.model;
        let mut obs = 0;
        for h in m.epoch_handles() {
            let n = &m.nodes[h];
            let exp = !m.is_live(h);
            let got = n.id.is_removed(&st.arena);
            if got != exp {
                bail!(
                    if exp { "old-id-reports-live" } else { "live-id-reports-removed" },
                    "id of node {} (slot {}, slot re-issued {} times since): is_removed() = {}, but the node {}",
                    h, n.slot + 1, m.recycles[n.slot], got,
                    if exp { "was removed" } else { "is live" }
                );
            }
            obs += 1;
        }
        Ok(obs)
    }))
}

// ======================================================================= C07

pub const RETIRE_MIN_RECYCLES: u32 = 10_000;

/// Allocation step check: where did the new node go, did anything else change.
pub fn c07_alloc<P: Payload>(st: &State<P>, info: &StepInfo<P>) -> R {
    let Some(h) = info.new_h else { return Ok(0) };
    wrap(&["C07"], "alloc", guarded(|| {
        let pre = &info.pre_model;
        let slot = st.model.nodes[h].slot;
        let pre_count = info.snapshot.count();
        let count = st.arena.count();
        let offerable: Vec<usize> = pre.avail.iter().copied().filter(|s| pre.recycles[*s] < RETIRE_MIN_RECYCLES).collect();
        if pre.avail.contains(&slot) {
            if count != pre_count {
                bail!("grew-while-recycling", "new node went to removed slot {} but count() went {} -> {}", slot + 1, pre_count, count);
            }
        } else if slot == pre_count {
            if count != pre_count + 1 {
                bail!("growth-not-one", "new node at fresh position {} but count() went {} -> {}", slot + 1, pre_count, count);
            }
            if !offerable.is_empty() {
                bail!("grew-with-free-slot", "arena grew to {} although removed slots {:?} were available", count, offerable.iter().map(|s| s + 1).collect::<Vec<_>>());
            }
        } else {
            bail!("occupied-or-bogus-slot", "new node was placed at position {} which is neither an available removed slot ({:?}) nor the next fresh position {}", slot + 1, pre.avail.iter().map(|s| s + 1).collect::<Vec<_>>(), pre_count + 1);
        }
        // every other slot untouched (for append_value: except the parent and the former last child)
        let mut skip = vec![slot];
        if let Op::AppendValue(p) = &info.op {
            skip.push(pre.nodes[*p].slot);
            if let Some(l) = pre.children(*p).last() {
                skip.push(pre.nodes[*l].slot);
            }
        }
        let (a, b) = (st.arena.as_slice(), info.snapshot.as_slice());
        for j in 0..pre_count {
            if skip.contains(&j) {
                continue;
            }
            if a[j] != b[j] {
                bail!("bystander-changed", "allocation into position {} changed the slot at position {}", slot + 1, j + 1);
            }
        }
        Ok(pre_count as u64 + 1)
    }))
}

/// Observes the whole free list through behaviour, on clones.
pub fn c07_drain_probe<P: Payload>(st: &State<P>) -> R {
    wrap(&["C07"], "drain", guarded(|| {
        let m = &st.model;
        let must: Vec<usize> = m.avail.iter().copied().filter(|s| m.recycles[*s] < RETIRE_MIN_RECYCLES).collect();
        let mut obs = 0u64;
        let mut c = st.arena.clone();
        let n0 = c.count();
        let mut got: Vec<NodeId> = Vec::new();
        loop {
            let id = c.new_node(P::make(u64::MAX, 0));
            if c.count() > n0 {
                if usize::from(id) != n0 + 1 || c.count() != n0 + 1 {
                    bail!("growth-position", "after the free slots ran out the new node is at position {} with count() {} (was {})", usize::from(id), c.count(), n0);
                }
                break;
            }
            got.push(id);
            if got.len() > n0 + 1 {
                bail!("drain-does-not-end", "allocated {} nodes without count() {} growing", got.len(), n0);
            }
        }
        let mut got_slots: Vec<usize> = got.iter().map(|i| slot_of(*i)).collect();
        let dup = {
            let mut s = got_slots.clone();
            s.sort_unstable();
            s.windows(2).any(|w| w[0] == w[1])
        };
        if dup {
            bail!("slot-offered-twice", "draining handed out a slot twice: {:?}", got_slots.iter().map(|s| s + 1).collect::<Vec<_>>());
        }
        for s in &got_slots {
            if !m.avail.contains(s) {
                bail!("occupied-slot-offered", "draining handed out position {} which holds a live node (available: {:?})", s + 1, m.avail.iter().map(|s| s + 1).collect::<Vec<_>>());
            }
        }
        for s in &must {
            if !got_slots.contains(s) {
                bail!("free-slot-lost", "removed slot {} (re-issued {} times) was never offered again; offered {:?}", s + 1, m.recycles[*s], got_slots.iter().map(|s| s + 1).collect::<Vec<_>>());
            }
        }
        obs += got.len() as u64 + 1;
        // second round: free everything that was just handed out and drain again
        // (a stale tail pointer shows here)
        if !got.is_empty() {
            let mut order: Vec<NodeId> = got.clone();
            order.reverse();
            for id in &order {
                id.remove(&mut c);
            }
            let n1 = c.count();
            let mut again: Vec<usize> = Vec::new();
            loop {
                let id = c.new_node(P::make(u64::MAX, 1));
                if c.count() > n1 {
                    break;
                }
                again.push(slot_of(id));
                if again.len() > n1 + 1 {
                    bail!("drain-does-not-end", "second drain allocated {} nodes without growth", again.len());
                }
            }
            let mut x = again.clone();
            x.sort_unstable();
            got_slots.sort_unstable();
            // slots may retire between the rounds only if they are beyond the retirement threshold
            let missing: Vec<usize> = got_slots.iter().copied().filter(|s| !x.contains(s) && m.recycles[*s] + 1 < RETIRE_MIN_RECYCLES).collect();
            let extra: Vec<usize> = x.iter().copied().filter(|s| !got_slots.contains(s)).collect();
            if !missing.is_empty() || !extra.is_empty() || x.windows(2).any(|w| w[0] == w[1]) {
                bail!("second-drain-differs", "slots {:?} were freed again but the second drain offered {:?}", got_slots.iter().map(|s| s + 1).collect::<Vec<_>>(), again.iter().map(|s| s + 1).collect::<Vec<_>>());
            }
            obs += again.len() as u64;
        }
        Ok(obs)
    }))
}

// ======================================================================= C12

/// Removed, not yet recycled slots report no links; live traversals do not reach them.
pub fn c12_removed_isolated<P: Payload>(st: &State<P>) -> R {
    wrap(&["C12"], "removed", guarded(|| {
        let m = &st.model;
        let a = &st.arena;
        let mut obs = 0;
        let removed = m.removed_unrecycled_handles();
        for &h in &removed {
            let id = m.nodes[h].id;
            let n = match a.get(id) {
                Some(n) => n,
                None => bail!("get-none", "get(id) of removed node {} is None", h),
            };
            if !n.is_removed() {
                bail!("not-flagged", "slot {} was removed but Node::is_removed() is false", m.nodes[h].slot + 1);
            }
            for (name, l) in five(n) {
                if let Some(l) = l {
                    bail!(format!("removed-keeps-{}", name), "removed slot {} (node {}) still reports {} = {}", m.nodes[h].slot + 1, h, name, usize::from(l));
                }
                obs += 1;
            }
        }
        if !removed.is_empty() {
            let removed_ids: HashSet<NodeId> = removed.iter().map(|h| m.nodes[*h].id).collect();
            let removed_slots: HashSet<usize> = removed.iter().map(|h| m.nodes[*h].slot).collect();
            let bound = 2 * a.count() + 3;
            for h in m.live_handles() {
                let id = m.nodes[h].id;
                for (name, l) in five(&a[id]) {
                    if let Some(l) = l {
                        if removed_slots.contains(&slot_of(l)) {
                            bail!(format!("live-{}-names-removed", name), "live node {} reports {} = removed slot {}", h, name, usize::from(l));
                        }
                    }
                }
                if m.parent(h).is_none() {
                    for x in id.descendants(a).take(bound) {
                        if removed_ids.contains(&x) {
                            bail!("descendants-reach-removed", "descendants of root {} yield removed node at slot {}", h, usize::from(x));
                        }
                        obs += 1;
                    }
                }
                if m.children(h).is_empty() {
                    for x in id.ancestors(a).take(bound) {
                        if removed_ids.contains(&x) {
                            bail!("ancestors-reach-removed", "ancestors of {} yield removed node at slot {}", h, usize::from(x));
                        }
                        obs += 1;
                    }
                }
            }
        }
        Ok(obs)
    }))
}

/// Every insert entry point with a removed id in either position, and
/// append_value under it, on clones: refused, clone unchanged.
pub fn c12_probes<P: Payload>(st: &State<P>, rng: &mut Rng) -> R {
    wrap(&["C12"], "removed-probe", guarded(|| {
        let m = &st.model;
        let removed = m.removed_unrecycled_handles();
        if removed.is_empty() {
            return Ok(0);
        }
        let live = m.live_handles();
        let mut obs = 0u64;
        let mut rs = removed.clone();
        // at most 3 removed ids per probe round
        while rs.len() > 3 {
            let k = rng.below(rs.len());
            rs.swap_remove(k);
        }
        let live = m.live_handles();
        // the id of a removed node as the arena itself reports it (iter() + get_node_id): it names the
        // same removed node and must be refused just like the id kept from before the removal
        for &r in &rs {
            let slot = m.nodes[r].slot;
            if let Some(rid) = st.arena.get_node_id(&st.arena.as_slice()[slot]) {
                if let Some(l) = rng.pick(&live) {
                    let lid = m.nodes[*l].id;
                    for kind in INS_KINDS {
                        for (t, x) in [(rid, lid), (lid, rid)] {
                            let mut c = st.arena.clone();
                            let res = guarded(|| match kind {
                                InsKind::Append => t.checked_append(x, &mut c),
                                InsKind::Prepend => t.checked_prepend(x, &mut c),
                                InsKind::After => t.checked_insert_after(x, &mut c),
                                InsKind::Before => t.checked_insert_before(x, &mut c),
                            });
                            match res {
                                Ok(Err(_)) => {}
                                Ok(Ok(())) => bail!(format!("checked_{}-accepted-reobtained-id", kind.name()), "checked_{} accepted the id that get_node_id reports for removed slot {}", kind.name(), slot + 1),
                                Err(p) => bail!(format!("checked_{}-panic-reobtained-id", kind.name()), "checked_{} panicked on the id that get_node_id reports for removed slot {}: {}", kind.name(), slot + 1, p),
                            }
                            if c != st.arena {
                                bail!(format!("checked_{}-changed-arena-reobtained-id", kind.name()), "checked_{} refused the re-obtained id of removed slot {} but changed the arena", kind.name(), slot + 1);
                            }
                            obs += 1;
                        }
                    }
                }
            }
        }
        for &r in &rs {
            let mut pairs: Vec<(H, H)> = Vec::new();
            for _ in 0..2 {
                if let Some(l) = rng.pick(&live) {
                    pairs.push((r, *l));
                    pairs.push((*l, r));
                }
            }
            if let Some(r2) = removed.iter().find(|x| **x != r) {
                pairs.push((r, *r2));
                pairs.push((*r2, r));
            }
            for (t, x) in pairs {
                for kind in INS_KINDS {
                    for checked in [true, false] {
                        let op = Op::Ins { kind, checked, t, x };
                        let mut c = st.arena.clone();
                        let out = do_call(&mut c, m, &op, 0);
                        let ok = match (&out, checked) {
                            (Outcome::Ret(Ret::Res(Err(_))), true) => true,
                            (Outcome::Panic(_), false) => true,
                            _ => false,
                        };
                        if !ok {
                            bail!(format!("{}-accepted", op.kind_name()), "{} with a removed id (t={} x={}, removed: {}) was not refused: {}", op.kind_name(), t, x, r, out.text());
                        }
                        if c != st.arena {
                            bail!(format!("{}-changed-arena", op.kind_name()), "{} with a removed id (t={} x={}) was refused but changed the arena", op.kind_name(), t, x);
                        }
                        obs += 1;
                    }
                }
            }
            let mut c = st.arena.clone();
            let out = do_call(&mut c, m, &Op::AppendValue(r), u64::MAX);
            if !out.is_panic() {
                bail!("append_value-accepted", "append_value under removed node {} (slot {}) did not panic: {}", r, m.nodes[r].slot + 1, out.text());
            }
            if c != st.arena {
                bail!("append_value-changed-arena", "append_value under removed node {} panicked but changed the arena", r);
            }
            obs += 1;
        }
        Ok(obs)
    }))
}

// ======================================================================= C05

/// Runs the *other* form (unchecked vs checked) of the insert on a clone of the
/// pre-state and compares refusal, atomicity and effect.
pub fn c05_differential<P: Payload>(st: &State<P>, info: &StepInfo<P>) -> R {
    let Op::Ins { kind, checked, t, x } = info.op else { return Ok(0) };
    wrap(&["C05"], "differential", guarded(|| {
        let other = Op::Ins { kind, checked: !checked, t, x };
        let mut c = info.snapshot.clone();
        let out = do_call(&mut c, &info.pre_model, &other, 0);
        let other_refused = matches!(out, Outcome::Panic(_) | Outcome::Ret(Ret::Res(Err(_))));
        let name = other.kind_name();
        if checked {
            // other = unchecked: must panic exactly when the checked form failed
            if other_refused != info.refused {
                bail!(format!("{}/{:?}/unchecked-vs-checked", name, info.rel), "{} {} but the checked form {}", name, if other_refused { "panicked" } else { "returned" }, info.outcome.text());
            }
        } else {
            if let Outcome::Panic(p) = &out {
                bail!(format!("{}/{:?}/checked-panicked", name, info.rel), "{} panicked: {}", name, p);
            }
            if other_refused != info.refused {
                bail!(format!("{}/{:?}/unchecked-vs-checked", name, info.rel), "{} returned {} but the unchecked form {}", name, out.text(), info.outcome.text());
            }
        }
        if other_refused {
            if c != info.snapshot {
                bail!(format!("{}/{:?}/refusal-not-atomic", name, info.rel), "{} refused the request but changed the arena", name);
            }
        } else if c != st.arena {
            bail!(format!("{}/{:?}/effect-differs", name, info.rel), "checked and unchecked forms left different arenas");
        }
        Ok(1)
    }))
}

// ======================================================================= C03

fn forest_links(m: &Model) -> Vec<(H, crate::model::Links)> {
    m.live_handles().into_iter().map(|h| (h, m.links(h))).collect()
}

/// no-op clause and append_value == new_node + append
pub fn c03_extras<P: Payload>(st: &State<P>, info: &StepInfo<P>) -> R {
    wrap(&["C03"], "extras", guarded(|| {
        let mut obs = 0;
        match &info.op {
            Op::Ins { .. } | Op::Detach(_) if !info.refused => {
                if forest_links(&info.pre_model) == forest_links(&st.model) {
                    obs += 1;
                    if st.arena != info.snapshot {
                        bail!(format!("{}/{:?}/noop-changed-arena", info.op.kind_name(), info.rel), "the node already was where it was requested to go, yet the arena differs from the snapshot");
                    }
                }
            }
            Op::AppendValue(p) if !info.refused => {
                let h = info.new_h.unwrap();
                let tid = st.model.nodes[h].tid;
                let mut c = info.snapshot.clone();
                let x = c.new_node(P::make(tid, crate::exec::init_val(tid)));
                info.pre_model.nodes[*p].id.append(x, &mut c);
                if x != st.model.nodes[h].id {
                    bail!("append_value/id-differs", "append_value returned {:?}, new_node on an equal arena returned {:?}", st.model.nodes[h].id, x);
                }
                if c != st.arena {
                    bail!("append_value/not-equal-new-plus-append", "append_value(v) and new_node(v) + append left different arenas");
                }
                obs += 1;
            }
            _ => {}
        }
        Ok(obs)
    }))
}

// ======================================================================= C08

/// drop accounting for `Tok` payloads: expected 0 drops for tokens stored in a
/// live node, exactly 1 for every other token ever made
pub fn c08_drops(m: &Model, arena_alive: bool) -> R {
    use crate::payload::{drops_of, drops_total, made_total};
    let mut stored: HashSet<u64> = HashSet::new();
    if arena_alive {
        for h in m.epoch_handles() {
            if m.is_live(h) {
                stored.insert(m.nodes[h].tid);
            }
        }
    }
    let mut obs = 0;
    for tid in 0..m.next_tid {
        let exp = if stored.contains(&tid) { 0 } else { 1 };
        let got = drops_of(tid);
        if got != exp {
            let kind = if got > exp { "dropped-too-often" } else { "not-dropped" };
            return Err(Finding::new(
                &["C08"],
                format!("drops/{}", kind),
                format!("payload token {}: dropped {} times, expected {} ({})", tid, got, exp, if exp == 0 { "its node is live" } else { "its node was removed / value replaced / arena cleared" }),
            ));
        }
        obs += 1;
    }
    let (made, dropped) = (made_total(), drops_total());
    if made != dropped + stored.len() as u64 {
        return Err(Finding::new(
            &["C08"],
            "drops/conservation".into(),
            format!("created {} != dropped {} + live {}", made, dropped, stored.len()),
        ));
    }
    Ok(obs + 1)
}

/// payload identity through every read path
pub fn c08_payloads<P: Payload>(st: &State<P>) -> R {
    wrap(&["C08"], "payload", guarded(|| {
        let m = &st.model;
        let mut obs = 0;
        for h in m.live_handles() {
            let n = &m.nodes[h];
            let via_get = st.arena.get(n.id).map(|x| (x.get().tid(), x.get().val()));
            let via_idx = (st.arena[n.id].get().tid(), st.arena[n.id].get().val());
            let via_slice = {
                let x = &st.arena.as_slice()[n.slot];
                (x.get().tid(), x.get().val())
            };
            let exp = (n.tid, n.val);
            if via_get != Some(exp) || via_idx != exp || via_slice != exp {
                bail!("value", "node {} (slot {}): get/Index/as_slice read {:?} / {:?} / {:?}, last stored {:?}", h, n.slot + 1, via_get, via_idx, via_slice, exp);
            }
            obs += 3;
        }
        Ok(obs)
    }))
}

/// `clone_from` into an arena that has a history of its own, then a removal in the copy:
/// every other live node of the copy must keep the payload last stored for it.
pub fn c08_clone_from_probe<P: Payload>(st: &State<P>, rng: &mut Rng) -> R {
    wrap(&["C08"], "clone_from-probe", guarded(|| {
        let m = &st.model;
        let live = m.live_handles();
        if live.len() < 2 {
            return Ok(0);
        }
        // destination with its own slots and its own pending free list
        let mut d: Arena<P> = Arena::new();
        let k = rng.range(1, 2 * m.slot_count().max(2));
        let mut ids = Vec::new();
        for i in 0..k {
            ids.push(d.new_node(P::make(u64::MAX - 7, i as u64)));
        }
        let mut nrem = rng.below(k + 1);
        while nrem > 0 && !ids.is_empty() {
            let i = rng.below(ids.len());
            ids.swap_remove(i).remove(&mut d);
            nrem -= 1;
        }
        d.clone_from(&st.arena);
        let mut obs = 0;
        for _ in 0..3 {
            let x = live[rng.below(live.len())];
            let mut d2 = d.clone();
            if rng.chance(1, 2) {
                m.nodes[x].id.remove(&mut d2);
            } else {
                m.nodes[x].id.remove_subtree(&mut d2);
            }
            let gone: HashSet<H> = m.subtree(x).into_iter().collect();
            for &h in &live {
                if h == x || gone.contains(&h) {
                    continue;
                }
                let n = &m.nodes[h];
                let got = guarded(|| {
                    let p = d2[n.id].get();
                    (p.tid(), p.val())
                });
                match got {
                    Ok(v) if v == (n.tid, n.val) => obs += 1,
                    Ok(v) => bail!("payload-changed", "after clone_from + removal of node {} in the copy, node {} reads {:?}, last stored {:?}", x, h, v, (n.tid, n.val)),
                    Err(p) => bail!("payload-lost", "after clone_from + removal of node {} in the copy, reading live node {} panicked: {}", x, h, p),
                }
            }
        }
        Ok(obs)
    }))
}

// ======================================================================= C14

/// reference renderer over the model
pub fn reference_render(m: &Model, start: H, text: &dyn Fn(H) -> String) -> String {
    fn rec(m: &Model, h: H, guides: &str, is_root: bool, is_last: bool, text: &dyn Fn(H) -> String, out: &mut Vec<String>) {
        let t = text(h);
        let child_guides;
        if is_root {
            for l in t.split('\n') {
                out.push(l.to_string());
            }
            child_guides = String::new();
        } else {
            for (k, l) in t.split('\n').enumerate() {
                let lead = if k == 0 {
                    if is_last { "`-- " } else { "|-- " }
                } else if is_last {
                    "    "
                } else {
                    "|   "
                };
                out.push(format!("{}{}{}", guides, lead, l));
            }
            child_guides = format!("{}{}", guides, if is_last { "    " } else { "|   " });
        }
        let ks = m.children(h);
        for (i, c) in ks.iter().enumerate() {
            rec(m, *c, &child_guides, false, i + 1 == ks.len(), text, out);
        }
    }
    let mut out = Vec::new();
    rec(m, start, "", true, true, text, &mut out);
    out.join("\n")
}

/// a writer that fails after a number of bytes: aborts a print part-way
pub struct LimitedWriter {
    pub left: usize,
}

impl std::fmt::Write for LimitedWriter {
    fn write_str(&mut self, s: &str) -> std::fmt::Result {
        if s.len() > self.left {
            self.left = 0;
            return Err(std::fmt::Error);
        }
        self.left -= s.len();
        Ok(())
    }
}

pub fn c14_pretty<P: Payload + std::fmt::Display>(st: &State<P>, starts: &[H], text: &dyn Fn(H, u8) -> String, shapes: &mut HashSet<u64>) -> R {
    wrap(&["C14"], "pretty", guarded(|| {
        let m = &st.model;
        let mut obs = 0;
        for (si, &h) in starts.iter().enumerate() {
            let id = m.nodes[h].id;
            for mode in 0u8..4 {
                if (si + mode as usize) % 3 == 0 {
                    // a print into a writer that fails part-way must not influence the next print
                    use std::fmt::Write as _;
                    let mut w = LimitedWriter { left: (h * 13 + si * 7 + mode as usize * 3) % 40 };
                    let _ = guarded(|| match mode {
                        0 => write!(w, "{}", id.debug_pretty_print(&st.arena)),
                        1 => write!(w, "{:#}", id.debug_pretty_print(&st.arena)),
                        2 => write!(w, "{:?}", id.debug_pretty_print(&st.arena)),
                        _ => write!(w, "{:#?}", id.debug_pretty_print(&st.arena)),
                    });
                }
                if (si + mode as usize) % 5 == 1 {
                    // ... nor must a print that died in a panic of the payload's own rendering
                    crate::payload::set_display_panics(true);
                    let _ = guarded(|| match mode {
                        0 | 1 => format!("{}", id.debug_pretty_print(&st.arena)),
                        _ => format!("{:?}", id.debug_pretty_print(&st.arena)),
                    });
                    crate::payload::set_display_panics(false);
                }
                let got = guarded(|| match mode {
                    0 => format!("{}", id.debug_pretty_print(&st.arena)),
                    1 => format!("{:#}", id.debug_pretty_print(&st.arena)),
                    2 => format!("{:?}", id.debug_pretty_print(&st.arena)),
                    _ => format!("{:#?}", id.debug_pretty_print(&st.arena)),
                });
                let got = match got {
                    Ok(g) => g,
                    Err(p) => bail!(format!("mode{}-panic", mode), "formatting the subtree of node {} panicked: {}", h, p),
                };
                let exp = reference_render(m, h, &|x| text(x, mode));
                if got != exp {
                    bail!(format!("mode{}-text", mode), "subtree of node {} ({}), mode {}:\n--- printed\n{}\n--- expected\n{}\n---", h, crate::exec::node_class(m, h), ["{}", "{:#}", "{:?}", "{:#?}"][mode as usize], got, exp);
                }
                obs += 1;
            }
            shapes.insert(crate::rng::mix2(m.tree_hash(h), m.links(h).next.is_some() as u64));
        }
        Ok(obs)
    }))
}

// helper so that InsKind import is used even when probes are compiled out
#[allow(dead_code)]
fn _k(_: InsKind) {}
