//! W1: hostile random histories.  Arguments are not uniform: the generator asks
//! the model for a node in a chosen relation to the target.

use crate::model::{InsKind, Model, H, INS_KINDS};
use crate::ops::Op;
use crate::rng::Rng;

#[derive(Clone, Copy, Debug, PartialEq, Eq)]
pub enum Persona {
    Balanced,
    /// bursts of insert_after / insert_before on parentless nodes
    Chains,
    Deep,
    Wide,
    /// remove / new_node ping-pong: slot recycling
    Churn,
    /// remove_subtree of large subtrees, many frees in one call
    SubtreeBursts,
    /// allocation suppressed for stretches so removed slots persist
    RemovedLinger,
    /// mostly moves between existing nodes
    Shuffle,
    /// one very deep path (hundreds of levels in large histories): append below the deepest node
    Spine,
}

pub const PERSONAS: [Persona; 9] = [
    Persona::Balanced,
    Persona::Chains,
    Persona::Deep,
    Persona::Wide,
    Persona::Churn,
    Persona::SubtreeBursts,
    Persona::RemovedLinger,
    Persona::Shuffle,
    Persona::Spine,
];

#[derive(Clone, Debug)]
pub struct GenCfg {
    pub max_live: usize,
    pub max_slots: usize,
    /// include get_mut / replace / iter_mut writes
    pub writes: bool,
    /// include clear()
    pub clear: bool,
    /// include reserve()
    pub reserve: bool,
    /// include requests the documentation says must be refused
    pub impossible: bool,
    /// include removed ids as arguments
    pub removed_args: bool,
    /// include the panicking unchecked form of impossible requests
    pub unchecked_impossible: bool,
}

impl GenCfg {
    pub fn small() -> GenCfg {
        GenCfg {
            max_live: 14,
            max_slots: 24,
            writes: false,
            clear: false,
            reserve: false,
            impossible: true,
            removed_args: true,
            unchecked_impossible: true,
        }
    }
    pub fn large() -> GenCfg {
        GenCfg {
            max_live: 160,
            max_slots: 256,
            ..GenCfg::small()
        }
    }
}

pub struct Gen {
    pub cfg: GenCfg,
    pub persona: Persona,
    /// while > 0, no allocation is generated (RemovedLinger)
    linger: usize,
}

#[derive(Clone, Copy, Debug)]
enum Want {
    SelfNode,
    Parent,
    Ancestor,
    FirstChild,
    LastChild,
    AnyChild,
    Descendant,
    PrevSib,
    NextSib,
    AnySib,
    ChainMate,
    OtherRoot,
    OtherAny,
    Removed,
    Newest,
    Any,
}

const WANTS: [Want; 16] = [
    Want::SelfNode,
    Want::Parent,
    Want::Ancestor,
    Want::FirstChild,
    Want::LastChild,
    Want::AnyChild,
    Want::Descendant,
    Want::PrevSib,
    Want::NextSib,
    Want::AnySib,
    Want::ChainMate,
    Want::OtherRoot,
    Want::OtherAny,
    Want::Removed,
    Want::Newest,
    Want::Any,
];

impl Gen {
    pub fn new(cfg: GenCfg, persona: Persona) -> Gen {
        Gen {
            cfg,
            persona,
            linger: 0,
        }
    }

    fn pick_live(&self, rng: &mut Rng, m: &Model, live: &[H]) -> H {
        match self.persona {
            Persona::Deep if rng.chance(2, 3) => {
                // deepest of a few samples
                let mut best = live[rng.below(live.len())];
                for _ in 0..3 {
                    let c = live[rng.below(live.len())];
                    if m.depth(c) > m.depth(best) {
                        best = c;
                    }
                }
                best
            }
            Persona::Spine if rng.chance(7, 8) => {
                // the deepest live node (ties: the newest)
                let mut best = live[live.len() - 1];
                let mut bd = m.depth(best);
                for _ in 0..6 {
                    let c = live[live.len() - 1 - rng.below(live.len().min(12))];
                    let d = m.depth(c);
                    if d > bd {
                        best = c;
                        bd = d;
                    }
                }
                best
            }
            Persona::Wide if rng.chance(2, 3) => {
                let mut best = live[rng.below(live.len())];
                for _ in 0..3 {
                    let c = live[rng.below(live.len())];
                    if m.children(c).len() > m.children(best).len() {
                        best = c;
                    }
                }
                best
            }
            Persona::Chains if rng.chance(2, 3) => {
                // prefer parentless nodes
                for _ in 0..4 {
                    let c = live[rng.below(live.len())];
                    if m.parent(c).is_none() {
                        return c;
                    }
                }
                live[rng.below(live.len())]
            }
            _ => live[rng.below(live.len())],
        }
    }

    fn related(&self, rng: &mut Rng, m: &Model, t: H, live: &[H], removed: &[H]) -> H {
        let any = |rng: &mut Rng| live[rng.below(live.len())];
        if !m.is_live(t) {
            // target is a removed node: pair it with a live node, another removed one, or itself
            return match rng.below(4) {
                0 if !removed.is_empty() => removed[rng.below(removed.len())],
                _ => any(rng),
            };
        }
        for _ in 0..4 {
            let w = WANTS[rng.below(WANTS.len())];
            let r: Option<H> = match w {
                Want::SelfNode => {
                    if self.cfg.impossible && rng.chance(1, 2) {
                        Some(t)
                    } else {
                        None
                    }
                }
                Want::Parent => {
                    if self.cfg.impossible {
                        m.parent(t)
                    } else {
                        None
                    }
                }
                Want::Ancestor => {
                    if self.cfg.impossible {
                        let mut anc = Vec::new();
                        let mut c = m.parent(t);
                        while let Some(p) = c {
                            anc.push(p);
                            c = m.parent(p);
                        }
                        rng.pick(&anc).copied()
                    } else {
                        None
                    }
                }
                Want::FirstChild => m.children(t).first().copied(),
                Want::LastChild => m.children(t).last().copied(),
                Want::AnyChild => rng.pick(m.children(t)).copied(),
                Want::Descendant => {
                    let s = m.subtree(t);
                    if s.len() > 1 {
                        Some(s[1 + rng.below(s.len() - 1)])
                    } else {
                        None
                    }
                }
                Want::PrevSib => m.links(t).prev,
                Want::NextSib => m.links(t).next,
                Want::AnySib => {
                    let s = m.siblings(t);
                    if s.len() > 1 {
                        let c = s[rng.below(s.len())];
                        if c != t {
                            Some(c)
                        } else {
                            None
                        }
                    } else {
                        None
                    }
                }
                Want::ChainMate => {
                    let r = m.root_of(t);
                    let s = m.siblings(r);
                    if s.len() > 1 {
                        let c = s[rng.below(s.len())];
                        if rng.chance(1, 2) {
                            Some(c)
                        } else {
                            let sub = m.subtree(c);
                            Some(sub[rng.below(sub.len())])
                        }
                    } else {
                        None
                    }
                }
                Want::OtherRoot => {
                    let c = any(rng);
                    let r = m.root_of(c);
                    if r != m.root_of(t) {
                        Some(r)
                    } else {
                        None
                    }
                }
                Want::OtherAny => {
                    let c = any(rng);
                    if m.root_of(c) != m.root_of(t) {
                        Some(c)
                    } else {
                        None
                    }
                }
                Want::Removed => {
                    if self.cfg.removed_args && rng.chance(1, 2) {
                        rng.pick(removed).copied()
                    } else {
                        None
                    }
                }
                Want::Newest => live.last().copied(),
                Want::Any => Some(any(rng)),
            };
            if let Some(x) = r {
                return x;
            }
        }
        any(rng)
    }

    /// next operation for the current model state
    pub fn next_op(&mut self, rng: &mut Rng, m: &Model) -> Op {
        let live = m.live_handles();
        let removed = m.removed_unrecycled_handles();
        if live.is_empty() {
            return Op::New;
        }
        let room = live.len() < self.cfg.max_live
            && (m.slot_count() < self.cfg.max_slots || !m.avail.is_empty());
        // weights: New, AppendValue, Ins, Detach, Remove, RemoveSubtree, Write, Replace, IterMut, Clear, Reserve
        let mut w: [u32; 11] = match self.persona {
            Persona::Balanced => [10, 12, 44, 6, 10, 5, 0, 0, 0, 0, 0],
            Persona::Chains => [16, 4, 52, 6, 12, 3, 0, 0, 0, 0, 0],
            Persona::Deep => [6, 24, 40, 4, 10, 5, 0, 0, 0, 0, 0],
            Persona::Wide => [6, 26, 40, 4, 10, 4, 0, 0, 0, 0, 0],
            Persona::Churn => [26, 10, 18, 3, 32, 6, 0, 0, 0, 0, 0],
            Persona::SubtreeBursts => [8, 30, 26, 3, 6, 14, 0, 0, 0, 0, 0],
            Persona::RemovedLinger => [8, 10, 40, 6, 18, 8, 0, 0, 0, 0, 0],
            Persona::Shuffle => [4, 6, 72, 8, 4, 2, 0, 0, 0, 0, 0],
            Persona::Spine => [3, 70, 18, 1, 3, 1, 0, 0, 0, 0, 0],
        };
        if live.len() < 3 {
            w[0] += 30;
            w[1] += 30;
        }
        if !room {
            w[0] = 0;
            w[1] = 0;
            w[4] += 20;
            w[5] += 10;
        }
        if self.persona == Persona::RemovedLinger {
            if self.linger > 0 {
                self.linger -= 1;
                w[0] = 0;
                w[1] = 0;
            } else if !removed.is_empty() && rng.chance(1, 6) {
                self.linger = rng.range(4, 14);
            }
        }
        if self.cfg.writes {
            w[6] = 8;
            w[7] = 4;
            w[8] = 2;
        }
        if self.cfg.clear {
            w[9] = 1;
        }
        if self.cfg.reserve {
            w[10] = 2;
        }
        match rng.weighted(&w) {
            0 => Op::New,
            1 => {
                if self.cfg.removed_args && !removed.is_empty() && rng.chance(1, 16) {
                    Op::AppendValue(removed[rng.below(removed.len())])
                } else {
                    Op::AppendValue(self.pick_live(rng, m, &live))
                }
            }
            2 => {
                let kind = if self.persona == Persona::Chains && rng.chance(2, 3) {
                    if rng.chance(1, 2) {
                        InsKind::After
                    } else {
                        InsKind::Before
                    }
                } else {
                    INS_KINDS[rng.below(4)]
                };
                let t = if self.cfg.removed_args && !removed.is_empty() && rng.chance(1, 14) {
                    removed[rng.below(removed.len())]
                } else {
                    self.pick_live(rng, m, &live)
                };
                let mut x = self.related(rng, m, t, &live, &removed);
                let mut checked = rng.chance(1, 2);
                let imp = m.why_impossible(t, x).impossible();
                if imp && !self.cfg.impossible {
                    // find any possible partner instead
                    let mut found = false;
                    for _ in 0..8 {
                        let c = live[rng.below(live.len())];
                        if m.is_live(t) && !m.why_impossible(t, c).impossible() {
                            x = c;
                            found = true;
                            break;
                        }
                    }
                    if !found {
                        return Op::New;
                    }
                } else if imp && !self.cfg.unchecked_impossible {
                    checked = true;
                }
                Op::Ins { kind, checked, t, x }
            }
            3 => Op::Detach(self.pick_live(rng, m, &live)),
            4 => {
                // removal candidates: bias towards nodes with children and chain members
                let mut x = self.pick_live(rng, m, &live);
                if rng.chance(1, 2) {
                    for _ in 0..3 {
                        let c = live[rng.below(live.len())];
                        if !m.children(c).is_empty() {
                            x = c;
                            break;
                        }
                    }
                }
                Op::Remove(x)
            }
            5 => {
                let mut x = self.pick_live(rng, m, &live);
                if self.persona == Persona::SubtreeBursts {
                    for _ in 0..4 {
                        let c = live[rng.below(live.len())];
                        if m.subtree(c).len() > m.subtree(x).len() {
                            x = c;
                        }
                    }
                }
                Op::RemoveSubtree(x)
            }
            6 => Op::Write(live[rng.below(live.len())], rng.next_u64() >> 8),
            7 => Op::Replace(live[rng.below(live.len())]),
            8 => Op::IterMutAdd(rng.next_u64() >> 40),
            9 => Op::Clear,
            _ => Op::Reserve(rng.below(40)),
        }
    }
}
