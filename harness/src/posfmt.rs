//! A small positional (non-self-describing) binary serde format, written for
//! this harness: structs are sequences of their fields, enums are a variant
//! index followed by the content, options a tag byte.  It drives the
//! `visit_seq` paths of the derived `Deserialize` impls (serde_json drives the
//! `visit_map` paths).

#![cfg(feature = "deser")]

use serde::de::{self, DeserializeSeed, EnumAccess, IntoDeserializer, SeqAccess, VariantAccess, Visitor};
use serde::ser::{self, Serialize};
use std::fmt;

#[derive(Debug)]
pub struct Error(pub String);

impl fmt::Display for Error {
    fn fmt(&self, f: &mut fmt::Formatter<'_>) -> fmt::Result {
        f.write_str(&self.0)
    }
}
impl std::error::Error for Error {}
impl ser::Error for Error {
    fn custom<T: fmt::Display>(msg: T) -> Self {
        Error(msg.to_string())
    }
}
impl de::Error for Error {
    fn custom<T: fmt::Display>(msg: T) -> Self {
        Error(msg.to_string())
    }
}

pub fn to_bytes<T: Serialize>(v: &T) -> Result<Vec<u8>, Error> {
    let mut s = Ser { out: Vec::new() };
    v.serialize(&mut s)?;
    Ok(s.out)
}

pub fn from_bytes<T: de::DeserializeOwned>(b: &[u8]) -> Result<T, Error> {
    let mut d = De { b, pos: 0 };
    let v = T::deserialize(&mut d)?;
    if d.pos != b.len() {
        return Err(Error(format!("{} trailing bytes", b.len() - d.pos)));
    }
    Ok(v)
}

pub struct Ser {
    out: Vec<u8>,
}

macro_rules! ser_num {
    ($f:ident, $t:ty) => {
        fn $f(self, v: $t) -> Result<(), Error> {
            self.out.extend_from_slice(&v.to_le_bytes());
            Ok(())
        }
    };
}

impl<'a> ser::Serializer for &'a mut Ser {
    type Ok = ();
    type Error = Error;
    type SerializeSeq = Self;
    type SerializeTuple = Self;
    type SerializeTupleStruct = Self;
    type SerializeTupleVariant = Self;
    type SerializeMap = Self;
    type SerializeStruct = Self;
    type SerializeStructVariant = Self;

    fn serialize_bool(self, v: bool) -> Result<(), Error> {
        self.out.push(v as u8);
        Ok(())
    }
    ser_num!(serialize_i8, i8);
    ser_num!(serialize_i16, i16);
    ser_num!(serialize_i32, i32);
    ser_num!(serialize_i64, i64);
    ser_num!(serialize_u8, u8);
    ser_num!(serialize_u16, u16);
    ser_num!(serialize_u32, u32);
    ser_num!(serialize_u64, u64);
    ser_num!(serialize_f32, f32);
    ser_num!(serialize_f64, f64);
    fn serialize_char(self, v: char) -> Result<(), Error> {
        self.serialize_u32(v as u32)
    }
    fn serialize_str(self, v: &str) -> Result<(), Error> {
        self.serialize_u64(v.len() as u64)?;
        self.out.extend_from_slice(v.as_bytes());
        Ok(())
    }
    fn serialize_bytes(self, v: &[u8]) -> Result<(), Error> {
        self.serialize_u64(v.len() as u64)?;
        self.out.extend_from_slice(v);
        Ok(())
    }
    fn serialize_none(self) -> Result<(), Error> {
        self.out.push(0);
        Ok(())
    }
    fn serialize_some<T: ?Sized + Serialize>(self, v: &T) -> Result<(), Error> {
        self.out.push(1);
        v.serialize(self)
    }
    fn serialize_unit(self) -> Result<(), Error> {
        Ok(())
    }
    fn serialize_unit_struct(self, _: &'static str) -> Result<(), Error> {
        Ok(())
    }
    fn serialize_unit_variant(self, _: &'static str, idx: u32, _: &'static str) -> Result<(), Error> {
        self.serialize_u32(idx)
    }
    fn serialize_newtype_struct<T: ?Sized + Serialize>(self, _: &'static str, v: &T) -> Result<(), Error> {
        v.serialize(self)
    }
    fn serialize_newtype_variant<T: ?Sized + Serialize>(self, _: &'static str, idx: u32, _: &'static str, v: &T) -> Result<(), Error> {
        self.serialize_u32(idx)?;
        v.serialize(self)
    }
    fn serialize_seq(self, len: Option<usize>) -> Result<Self, Error> {
        let len = len.ok_or_else(|| Error("sequence length required".into()))?;
        self.serialize_u64(len as u64)?;
        Ok(self)
    }
    fn serialize_tuple(self, _: usize) -> Result<Self, Error> {
        Ok(self)
    }
    fn serialize_tuple_struct(self, _: &'static str, _: usize) -> Result<Self, Error> {
        Ok(self)
    }
    fn serialize_tuple_variant(self, _: &'static str, idx: u32, _: &'static str, _: usize) -> Result<Self, Error> {
        self.serialize_u32(idx)?;
        Ok(self)
    }
    fn serialize_map(self, len: Option<usize>) -> Result<Self, Error> {
        let len = len.ok_or_else(|| Error("map length required".into()))?;
        self.serialize_u64(len as u64)?;
        Ok(self)
    }
    fn serialize_struct(self, _: &'static str, _: usize) -> Result<Self, Error> {
        Ok(self)
    }
    fn serialize_struct_variant(self, _: &'static str, idx: u32, _: &'static str, _: usize) -> Result<Self, Error> {
        self.serialize_u32(idx)?;
        Ok(self)
    }
}

macro_rules! ser_compound {
    ($tr:ident, $m:ident) => {
        impl<'a> ser::$tr for &'a mut Ser {
            type Ok = ();
            type Error = Error;
            fn $m<T: ?Sized + Serialize>(&mut self, v: &T) -> Result<(), Error> {
                v.serialize(&mut **self)
            }
            fn end(self) -> Result<(), Error> {
                Ok(())
            }
        }
    };
}
ser_compound!(SerializeSeq, serialize_element);
ser_compound!(SerializeTuple, serialize_element);
ser_compound!(SerializeTupleStruct, serialize_field);
ser_compound!(SerializeTupleVariant, serialize_field);

impl<'a> ser::SerializeMap for &'a mut Ser {
    type Ok = ();
    type Error = Error;
    fn serialize_key<T: ?Sized + Serialize>(&mut self, k: &T) -> Result<(), Error> {
        k.serialize(&mut **self)
    }
    fn serialize_value<T: ?Sized + Serialize>(&mut self, v: &T) -> Result<(), Error> {
        v.serialize(&mut **self)
    }
    fn end(self) -> Result<(), Error> {
        Ok(())
    }
}
impl<'a> ser::SerializeStruct for &'a mut Ser {
    type Ok = ();
    type Error = Error;
    fn serialize_field<T: ?Sized + Serialize>(&mut self, _: &'static str, v: &T) -> Result<(), Error> {
        v.serialize(&mut **self)
    }
    fn end(self) -> Result<(), Error> {
        Ok(())
    }
}
impl<'a> ser::SerializeStructVariant for &'a mut Ser {
    type Ok = ();
    type Error = Error;
    fn serialize_field<T: ?Sized + Serialize>(&mut self, _: &'static str, v: &T) -> Result<(), Error> {
        v.serialize(&mut **self)
    }
    fn end(self) -> Result<(), Error> {
        Ok(())
    }
}

pub struct De<'b> {
    b: &'b [u8],
    pos: usize,
}

impl<'b> De<'b> {
    fn take(&mut self, n: usize) -> Result<&'b [u8], Error> {
        if self.pos + n > self.b.len() {
            return Err(Error("unexpected end of input".into()));
        }
        let s = &self.b[self.pos..self.pos + n];
        self.pos += n;
        Ok(s)
    }
    fn u64(&mut self) -> Result<u64, Error> {
        Ok(u64::from_le_bytes(self.take(8)?.try_into().unwrap()))
    }
    fn u32(&mut self) -> Result<u32, Error> {
        Ok(u32::from_le_bytes(self.take(4)?.try_into().unwrap()))
    }
}

macro_rules! de_num {
    ($f:ident, $v:ident, $t:ty, $n:expr) => {
        fn $f<V: Visitor<'de>>(self, v: V) -> Result<V::Value, Error> {
            v.$v(<$t>::from_le_bytes(self.take($n)?.try_into().unwrap()))
        }
    };
}

impl<'de, 'a, 'b> de::Deserializer<'de> for &'a mut De<'b> {
    type Error = Error;

    fn deserialize_any<V: Visitor<'de>>(self, _: V) -> Result<V::Value, Error> {
        Err(Error("positional format is not self-describing".into()))
    }
    fn deserialize_bool<V: Visitor<'de>>(self, v: V) -> Result<V::Value, Error> {
        match self.take(1)?[0] {
            0 => v.visit_bool(false),
            1 => v.visit_bool(true),
            x => Err(Error(format!("bad bool {}", x))),
        }
    }
    de_num!(deserialize_i8, visit_i8, i8, 1);
    de_num!(deserialize_i16, visit_i16, i16, 2);
    de_num!(deserialize_i32, visit_i32, i32, 4);
    de_num!(deserialize_i64, visit_i64, i64, 8);
    de_num!(deserialize_u8, visit_u8, u8, 1);
    de_num!(deserialize_u16, visit_u16, u16, 2);
    de_num!(deserialize_u32, visit_u32, u32, 4);
    de_num!(deserialize_u64, visit_u64, u64, 8);
    de_num!(deserialize_f32, visit_f32, f32, 4);
    de_num!(deserialize_f64, visit_f64, f64, 8);
    fn deserialize_char<V: Visitor<'de>>(self, v: V) -> Result<V::Value, Error> {
        let c = char::from_u32(self.u32()?).ok_or_else(|| Error("bad char".into()))?;
        v.visit_char(c)
    }
    fn deserialize_str<V: Visitor<'de>>(self, v: V) -> Result<V::Value, Error> {
        self.deserialize_string(v)
    }
    fn deserialize_string<V: Visitor<'de>>(self, v: V) -> Result<V::Value, Error> {
        let n = self.u64()? as usize;
        let s = std::str::from_utf8(self.take(n)?).map_err(|e| Error(e.to_string()))?;
        v.visit_string(s.to_string())
    }
    fn deserialize_bytes<V: Visitor<'de>>(self, v: V) -> Result<V::Value, Error> {
        self.deserialize_byte_buf(v)
    }
    fn deserialize_byte_buf<V: Visitor<'de>>(self, v: V) -> Result<V::Value, Error> {
        let n = self.u64()? as usize;
        v.visit_byte_buf(self.take(n)?.to_vec())
    }
    fn deserialize_option<V: Visitor<'de>>(self, v: V) -> Result<V::Value, Error> {
        match self.take(1)?[0] {
            0 => v.visit_none(),
            1 => v.visit_some(self),
            x => Err(Error(format!("bad option tag {}", x))),
        }
    }
    fn deserialize_unit<V: Visitor<'de>>(self, v: V) -> Result<V::Value, Error> {
        v.visit_unit()
    }
    fn deserialize_unit_struct<V: Visitor<'de>>(self, _: &'static str, v: V) -> Result<V::Value, Error> {
        v.visit_unit()
    }
    fn deserialize_newtype_struct<V: Visitor<'de>>(self, _: &'static str, v: V) -> Result<V::Value, Error> {
        v.visit_newtype_struct(self)
    }
    fn deserialize_seq<V: Visitor<'de>>(self, v: V) -> Result<V::Value, Error> {
        let n = self.u64()? as usize;
        v.visit_seq(Counted { de: self, left: n })
    }
    fn deserialize_tuple<V: Visitor<'de>>(self, len: usize, v: V) -> Result<V::Value, Error> {
        v.visit_seq(Counted { de: self, left: len })
    }
    fn deserialize_tuple_struct<V: Visitor<'de>>(self, _: &'static str, len: usize, v: V) -> Result<V::Value, Error> {
        v.visit_seq(Counted { de: self, left: len })
    }
    fn deserialize_map<V: Visitor<'de>>(self, _: V) -> Result<V::Value, Error> {
        Err(Error("maps are not used by the types under test".into()))
    }
    fn deserialize_struct<V: Visitor<'de>>(self, _: &'static str, fields: &'static [&'static str], v: V) -> Result<V::Value, Error> {
        v.visit_seq(Counted { de: self, left: fields.len() })
    }
    fn deserialize_enum<V: Visitor<'de>>(self, _: &'static str, _: &'static [&'static str], v: V) -> Result<V::Value, Error> {
        v.visit_enum(Enum { de: self })
    }
    fn deserialize_identifier<V: Visitor<'de>>(self, _: V) -> Result<V::Value, Error> {
        Err(Error("identifiers are positional".into()))
    }
    fn deserialize_ignored_any<V: Visitor<'de>>(self, _: V) -> Result<V::Value, Error> {
        Err(Error("cannot skip in a positional format".into()))
    }
}

struct Counted<'a, 'b> {
    de: &'a mut De<'b>,
    left: usize,
}

impl<'de, 'a, 'b> SeqAccess<'de> for Counted<'a, 'b> {
    type Error = Error;
    fn next_element_seed<T: DeserializeSeed<'de>>(&mut self, seed: T) -> Result<Option<T::Value>, Error> {
        if self.left == 0 {
            return Ok(None);
        }
        self.left -= 1;
        seed.deserialize(&mut *self.de).map(Some)
    }
    fn size_hint(&self) -> Option<usize> {
        Some(self.left)
    }
}

struct Enum<'a, 'b> {
    de: &'a mut De<'b>,
}

impl<'de, 'a, 'b> EnumAccess<'de> for Enum<'a, 'b> {
    type Error = Error;
    type Variant = Self;
    fn variant_seed<V: DeserializeSeed<'de>>(self, seed: V) -> Result<(V::Value, Self), Error> {
        let idx = self.de.u32()?;
        let v = seed.deserialize(idx.into_deserializer())?;
        Ok((v, self))
    }
}

impl<'de, 'a, 'b> VariantAccess<'de> for Enum<'a, 'b> {
    type Error = Error;
    fn unit_variant(self) -> Result<(), Error> {
        Ok(())
    }
    fn newtype_variant_seed<T: DeserializeSeed<'de>>(self, seed: T) -> Result<T::Value, Error> {
        seed.deserialize(self.de)
    }
    fn tuple_variant<V: Visitor<'de>>(self, len: usize, v: V) -> Result<V::Value, Error> {
        v.visit_seq(Counted { de: self.de, left: len })
    }
    fn struct_variant<V: Visitor<'de>>(self, fields: &'static [&'static str], v: V) -> Result<V::Value, Error> {
        v.visit_seq(Counted { de: self.de, left: fields.len() })
    }
}
