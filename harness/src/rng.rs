//! Private SplitMix64 generator: no external crate, identical streams on every
//! toolchain, under Miri and under the sanitizers.

#[derive(Clone, Debug)]
pub struct Rng(pub u64);

pub fn mix(mut z: u64) -> u64 {
    z = z.wrapping_add(0x9E37_79B9_7F4A_7C15);
    z = (z ^ (z >> 30)).wrapping_mul(0xBF58_476D_1CE4_E5B9);
    z = (z ^ (z >> 27)).wrapping_mul(0x94D0_49BB_1331_11EB);
    z ^ (z >> 31)
}

pub fn mix2(a: u64, b: u64) -> u64 {
    mix(mix(a) ^ b.rotate_left(23).wrapping_mul(0x2545_F491_4F6C_DD1D))
}

impl Rng {
    pub fn new(seed: u64) -> Rng {
        Rng(mix(seed ^ 0xD1B5_4A32_D192_ED03))
    }
    pub fn derive(seed: u64, a: u64, b: u64) -> Rng {
        Rng::new(mix2(mix2(seed, a), b))
    }
    pub fn next_u64(&mut self) -> u64 {
        self.0 = self.0.wrapping_add(0x9E37_79B9_7F4A_7C15);
        let mut z = self.0;
        z = (z ^ (z >> 30)).wrapping_mul(0xBF58_476D_1CE4_E5B9);
        z = (z ^ (z >> 27)).wrapping_mul(0x94D0_49BB_1331_11EB);
        z ^ (z >> 31)
    }
    /// uniform in 0..n (n > 0)
    pub fn below(&mut self, n: usize) -> usize {
        debug_assert!(n > 0);
        (self.next_u64() % (n as u64)) as usize
    }
    pub fn range(&mut self, lo: usize, hi_incl: usize) -> usize {
        lo + self.below(hi_incl - lo + 1)
    }
    pub fn chance(&mut self, num: u32, den: u32) -> bool {
        (self.next_u64() % den as u64) < num as u64
    }
    pub fn pick<'a, T>(&mut self, xs: &'a [T]) -> Option<&'a T> {
        if xs.is_empty() {
            None
        } else {
            Some(&xs[self.below(xs.len())])
        }
    }
    /// weighted choice: returns index
    pub fn weighted(&mut self, ws: &[u32]) -> usize {
        let total: u64 = ws.iter().map(|w| *w as u64).sum();
        debug_assert!(total > 0);
        let mut r = self.next_u64() % total;
        for (i, w) in ws.iter().enumerate() {
            if r < *w as u64 {
                return i;
            }
            r -= *w as u64;
        }
        ws.len() - 1
    }
}

/// 128-bit-ish running digest (two independent 64-bit lanes).
#[derive(Clone, Debug, PartialEq, Eq)]
pub struct Digest(pub u64, pub u64, pub u64);

impl Default for Digest {
    fn default() -> Self {
        Digest(0x243F_6A88_85A3_08D3, 0x1319_8A2E_0370_7344, 0)
    }
}

impl Digest {
    pub fn u(&mut self, v: u64) {
        self.0 = mix2(self.0, v);
        self.1 = mix2(self.1 ^ 0xA409_3822_299F_31D0, v.rotate_left(17));
        self.2 += 1;
    }
    pub fn s(&mut self, s: &str) {
        self.u(s.len() as u64);
        for ch in s.as_bytes().chunks(8) {
            let mut b = [0u8; 8];
            b[..ch.len()].copy_from_slice(ch);
            self.u(u64::from_le_bytes(b));
        }
    }
    pub fn hex(&self) -> String {
        format!("{:016x}{:016x}", self.0, self.1)
    }
}
