//! Runtime-monitoring harness for saschagrunert/indextree (see /verif/DESIGN.md).

pub mod cov;
pub mod exec;
pub mod gen;
pub mod json;
pub mod model;
pub mod ops;
pub mod oracles;
pub mod payload;
#[cfg(feature = "deser")]
pub mod posfmt;
pub mod rng;
pub mod run;
pub mod shapes;
pub mod special;
