//! E1: monitor runner.  One process, N worker threads, deterministic in
//! (seed, workload, history index) regardless of the number of threads.

use ixv::cov::Cov;
use ixv::exec::install_quiet_panic_hook;
use ixv::gen::GenCfg;
use ixv::json::J;
use ixv::ops::Op;
use ixv::payload::{Plain, Tok, Txt};
use ixv::run::*;
use ixv::special::{run_c13, PrettyHook};
use std::collections::{BTreeMap, HashSet};
use std::sync::atomic::{AtomicBool, AtomicU64, Ordering};
use std::sync::{Arc, Mutex};
use std::time::{Duration, Instant};

#[derive(Clone, Debug)]
struct Plan {
    w1_small: u64,
    small_len: usize,
    w1_large: u64,
    large_len: usize,
    w2_n: usize,
    /// (slots, cycles, mode: 0 plain, 1 subtree bursts, 2 rotating fresh companions)
    w3: Vec<(usize, u64, u8)>,
    c13: u64,
    w3_tok: u64,
    /// shapes up to this many nodes are swept with every PAIR of consecutive operations
    w2_depth2_n: usize,
}

fn plan(prop: &str, tier: &str, scale: f64) -> Plan {
    let thorough = tier == "thorough";
    let (s, l, n) = if thorough { (1_200_000u64, 24_000u64, 8usize) } else { (100_000, 2_400, 7) };
    let mut p = Plan {
        w1_small: s,
        small_len: 80,
        w1_large: l,
        large_len: 600,
        w2_n: n,
        w3: Vec::new(),
        c13: 0,
        w3_tok: 0,
        w2_depth2_n: if thorough { 5 } else { 4 },
    };
    match prop {
        "C02" => {
            // its monitors are quadratic in the number of nodes at every boundary
            p.w1_small /= 2;
            if !thorough {
                p.w2_n = 6;
            }
        }
        "C06" => {
            p.w1_small /= 2;
            p.w1_large /= 2;
            p.w2_n = 0;
            p.w3 = if thorough {
                vec![(1, 200_000, 0), (2, 140_000, 0), (4, 300_000, 1), (7, 500_000, 1), (3, 70_000, 0), (1, 80_000, 2), (2, 140_000, 2), (3, 210_000, 2), (1, 80_000, 3), (2, 140_000, 3)]
            } else {
                vec![(1, 70_000, 0), (4, 140_000, 1), (2, 70_000, 0), (1, 36_000, 2), (2, 70_000, 2), (1, 36_000, 3), (2, 70_000, 3)]
            };
            p.w3.push((3, if thorough { 70_000 } else { 34_000 }, 4));
        }
        "C04" => {
            // removals that retire a slot, alone and inside a subtree freed by one call
            p.w3 = if thorough { vec![(4, 280_000, 1), (1, 70_000, 3), (2, 140_000, 3)] } else { vec![(3, 100_000, 1), (1, 36_000, 3), (2, 70_000, 3)] };
        }
        "C07" => {
            p.w2_n = if thorough { 7 } else { 6 };
            p.w3 = if thorough {
                vec![(1, 70_000, 0), (4, 280_000, 1), (5, 200_000, 0), (1, 70_000, 2), (2, 140_000, 2), (1, 70_000, 3), (2, 140_000, 3)]
            } else {
                vec![(1, 40_000, 0), (3, 100_000, 1), (1, 36_000, 2), (2, 70_000, 2), (1, 36_000, 3), (2, 70_000, 3)]
            };
            p.w3.push((3, if thorough { 70_000 } else { 34_000 }, 4));
        }
        "C09" | "C10" | "C14" => {
            p.w1_small /= 4;
            p.w1_large /= 2;
            p.w2_n = if thorough { 9 } else { 7 };
        }
        "C08" | "C11" => {
            p.w1_small /= 2;
            p.w2_n = 0;
            if prop == "C08" {
                p.w3_tok = if thorough { 140_000 } else { 40_000 };
            } else {
                // lookups on arenas with worn-out and retired slots
                p.w3 = if thorough { vec![(1, 70_000, 0), (3, 140_000, 1), (1, 40_000, 2), (4, 140_000, 4)] } else { vec![(1, 36_000, 0), (2, 70_000, 1), (3, 34_000, 4)] };
            }
        }
        "C12" => {
            p.w1_small /= 2;
            // removed nodes in worn-out (retired) slots
            p.w3 = if thorough { vec![(1, 70_000, 3), (2, 140_000, 3), (3, 210_000, 3)] } else { vec![(1, 36_000, 3), (2, 70_000, 3)] };
        }
        "C13" => {
            p.w1_small = 0;
            p.w1_large = 0;
            p.w2_n = 0;
            p.c13 = if thorough { 1_500_000 } else { 150_000 };
            // after clear() like new - also after the 32768th and the 65536th clear()
            p.w3 = vec![(3, if thorough { 140_000 } else { 34_000 }, 4)];
        }
        "C16" => {
            p.w1_small /= 2;
            p.w1_large /= 2;
            p.w2_n = 0;
            // states with generations near / beyond the end of the counter and retired slots
            p.w3 = if thorough { vec![(1, 70_000, 0), (3, 140_000, 1), (1, 40_000, 2)] } else { vec![(1, 36_000, 0), (2, 70_000, 1)] };
        }
        "C17" => {
            // observation battery: fixed size, independent of the tier
            p.w1_small = 8000;
            p.w1_large = 120;
            p.w2_n = 0;
            // generation churn belongs to the battery too: where recycled nodes land, when slots retire
            p.w3 = vec![(1, 40_000, 0), (2, 70_000, 2), (3, 60_000, 1), (3, 34_000, 4), (100_000, 0, 5)];
        }
        _ => {}
    }
    p.w1_small = (p.w1_small as f64 * scale) as u64;
    p.w1_large = (p.w1_large as f64 * scale) as u64;
    p.c13 = (p.c13 as f64 * scale) as u64;
    if scale < 0.05 {
        p.w2_n = p.w2_n.min(4);
        for w in p.w3.iter_mut() {
            w.1 = (w.1 as f64 * scale * 4.0) as u64 + 50;
        }
    }
    p
}

fn gen_cfg(prop: &str, size: Size) -> GenCfg {
    let mut g = match size {
        Size::Small => GenCfg::small(),
        Size::Large => GenCfg::large(),
    };
    match prop {
        "C06" | "C07" | "C11" | "C17" => g.clear = true,
        "C08" => {
            g.writes = true;
            g.clear = true;
        }
        "C09" | "C10" | "C14" => {
            // shape diversity matters, refusals do not
            g.unchecked_impossible = false;
        }
        _ => {}
    }
    // reserve() changes nothing observable: it may appear anywhere (not in the fixed C17 battery)
    if prop != "C17" {
        g.reserve = true;
    }
    g
}

enum Item {
    W1(Size, u64),
    W2(usize, bool, Variant, bool),
    W3(usize, u64, u8),
    C13(u64),
    W3Tok(u64),
}

struct Shared {
    next: AtomicU64,
    stop: AtomicBool,
    violations: Mutex<Vec<Violation>>,
    digests: Mutex<Vec<(String, String)>>,
}

fn arg(args: &[String], name: &str) -> Option<String> {
    args.iter().position(|a| a == name).and_then(|i| args.get(i + 1).cloned())
}

fn leak(s: String) -> &'static str {
    Box::leak(s.into_boxed_str())
}

fn write_replay(dir: &str, v: &Violation, profile: &str, seed: u64) -> String {
    let _ = std::fs::create_dir_all(dir);
    let h = ixv::rng::mix2(v.sig.bytes().fold(7u64, |a, b| a.wrapping_mul(131) ^ b as u64), 1);
    let path = format!("{}/{}-{:08x}-{}.replay", dir, v.prop, h as u32, profile);
    let mut s = String::new();
    s.push_str(&format!("property={}\nsignature={}\nprofile={}\nseed={}\nworkload={}\nstep={}\n", v.prop, v.sig, profile, seed, v.workload, v.step));
    s.push_str(&format!("detail={}\n", v.detail.replace('\n', "\\n")));
    s.push_str("ops:\n");
    for op in &v.ops {
        s.push_str(&op.to_text());
        s.push('\n');
    }
    let _ = std::fs::write(&path, s);
    path
}

fn parse_replay(path: &str) -> (BTreeMap<String, String>, Vec<Op>) {
    let txt = std::fs::read_to_string(path).unwrap_or_default();
    let mut meta = BTreeMap::new();
    let mut ops = Vec::new();
    let mut in_ops = false;
    for line in txt.lines() {
        if in_ops {
            if let Some(op) = Op::parse(line) {
                ops.push(op);
            }
        } else if line.trim() == "ops:" {
            in_ops = true;
        } else if let Some((k, v)) = line.split_once('=') {
            meta.insert(k.to_string(), v.to_string());
        }
    }
    (meta, ops)
}

/// known findings: lines `open: property=<id> signature=<sig> <text>`
fn load_known(path: &Option<String>) -> Vec<(String, String, String)> {
    let mut out = Vec::new();
    if let Some(p) = path {
        if let Ok(t) = std::fs::read_to_string(p) {
            for line in t.lines() {
                let line = line.trim();
                if let Some(rest) = line.strip_prefix("open:") {
                    let mut prop = String::new();
                    let mut sig = String::new();
                    let mut text = Vec::new();
                    for w in rest.split_whitespace() {
                        if let Some(x) = w.strip_prefix("property=") {
                            prop = x.to_string();
                        } else if let Some(x) = w.strip_prefix("signature=") {
                            sig = x.to_string();
                        } else {
                            text.push(w);
                        }
                    }
                    out.push((prop, sig, text.join(" ")));
                }
            }
        }
    }
    out
}

fn main() {
    let args: Vec<String> = std::env::args().collect();
    let prop = leak(arg(&args, "--prop").expect("--prop Cxx"));
    let tier = arg(&args, "--tier").unwrap_or_else(|| "quick".into());
    let seed: u64 = arg(&args, "--seed").and_then(|s| s.parse().ok()).unwrap_or(1);
    let threads: usize = arg(&args, "--threads").and_then(|s| s.parse().ok()).unwrap_or(16);
    let profile = arg(&args, "--profile").unwrap_or_else(|| if cfg!(debug_assertions) { "dev".into() } else { "release".into() });
    let out_path = arg(&args, "--out");
    let digest_path = arg(&args, "--digests");
    let replay_dir = arg(&args, "--replay-dir").unwrap_or_else(|| "/verif/replays".into());
    let known = load_known(&arg(&args, "--known"));
    let scale: f64 = arg(&args, "--scale").and_then(|s| s.parse().ok()).unwrap_or(1.0);
    let stall_secs: u64 = arg(&args, "--stall-secs").and_then(|s| s.parse().ok()).unwrap_or(20);
    let t0 = Instant::now();
    install_quiet_panic_hook();

    // ------------------------------------------------------------ deep-tree mode (run by the driver in a child process)
    if let Some(d) = arg(&args, "--deep").and_then(|s| s.parse::<usize>().ok()) {
        let h = std::thread::Builder::new().stack_size(2 << 20).spawn(move || ixv::exec::guarded(|| run_deep(prop, d))).unwrap();
        match h.join() {
            Ok(Ok(Ok(n))) => {
                println!("DEEP-OK depth={} observations={}", d, n);
                std::process::exit(0);
            }
            Ok(Ok(Err((kind, detail)))) => {
                println!("DEEP-FINDING sig=deep/{} detail={}", kind, detail);
                std::process::exit(1);
            }
            Ok(Err(p)) => {
                println!("DEEP-FINDING sig=deep/panic detail=a valid call on a deep tree panicked: {}", p);
                std::process::exit(1);
            }
            Err(_) => {
                println!("DEEP-INCONCLUSIVE worker thread could not be joined");
                std::process::exit(2);
            }
        }
    }

    // ------------------------------------------------------------ replay mode
    if let Some(file) = arg(&args, "--replay") {
        let (meta, ops) = parse_replay(&file);
        let beacon = Arc::new(Beacon::default());
        let ctx = Ctx { prop, seed, profile: profile.clone(), always_heavy: true, beacon: beacon.clone() };
        spawn_watchdog(vec![beacon], stall_secs.max(60), replay_dir.clone(), prop, profile.clone(), seed);
        let mut cov = Cov::default();
        let cap0: usize = meta
            .get("workload")
            .and_then(|w| w.rsplit_once("-cap"))
            .and_then(|(_, c)| c.parse().ok())
            .unwrap_or(0);
        // "w1-small-<index>-<persona>-worn<N>-cap<M>": the priming is regenerated from (seed, index)
        let worn: (u32, u64) = meta
            .get("workload")
            .map(|w| {
                let parts: Vec<&str> = w.split('-').collect();
                let n = parts.iter().find_map(|p| p.strip_prefix("worn").and_then(|x| x.parse().ok())).unwrap_or(0);
                let idx = parts.get(2).and_then(|x| x.parse().ok()).unwrap_or(0);
                (n, idx)
            })
            .unwrap_or((0, 0));
        let rseed_for_replay: u64 = meta.get("seed").and_then(|s| s.parse().ok()).unwrap_or(seed);
        let ctx = Ctx { seed: rseed_for_replay, ..ctx.clone() };
        let v = if meta.get("workload").map_or(false, |w| w.starts_with("w3-")) {
            // churn histories are regenerated from their parameters
            let w = meta.get("workload").unwrap();
            let parts: Vec<&str> = w.split(|c| c == '-' || c == '@').collect();
            let slots: usize = parts.get(1).and_then(|s| s.trim_end_matches("slots").parse().ok()).unwrap_or(1);
            let cycles: u64 = parts.get(2).and_then(|s| s.trim_end_matches("cycles").parse().ok()).unwrap_or(70_000);
            let sub: u8 = if w.contains("-sizes") { 5 } else if w.contains("-clearchurn") { 4 } else if w.contains("-companions-subtree") { 3 } else if w.contains("-companions") { 2 } else if w.contains("-subtree") { 1 } else { 0 };
            let rseed = meta.get("seed").and_then(|s| s.parse().ok()).unwrap_or(seed);
            let ctx = Ctx { seed: rseed, ..ctx.clone() };
            run_w3(&ctx, slots, cycles, sub, &mut cov)
        } else {
            match prop {
                "C08" => replay_ops::<Tok>(&ctx, &ops, cap0, worn, &mut cov, true, &mut NoHook),
                "C14" => replay_ops::<Txt>(&ctx, &ops, cap0, worn, &mut cov, false, &mut PrettyHook { shapes: HashSet::new() }),
                #[cfg(feature = "deser")]
                "C16" => {
                    let a = replay_ops::<Plain>(&ctx, &ops, cap0, worn, &mut cov, false, &mut ixv::special::SerdeHook { shadows: Vec::new() });
                    if a.is_some() {
                        a
                    } else {
                        replay_ops::<u64>(&ctx, &ops, cap0, worn, &mut cov, false, &mut ixv::special::SerdeHook { shadows: Vec::new() })
                    }
                }
                _ => replay_ops::<Plain>(&ctx, &ops, cap0, worn, &mut cov, false, &mut NoHook),
            }
        };
        match v {
            Some(v) => {
                println!("replay: reproduced [{}] {}", v.sig, v.detail);
                if known.iter().any(|(p, s, _)| p == &v.prop && s == &v.sig) {
                    println!("KNOWN-FINDING: property={} {}", v.prop, v.sig);
                    std::process::exit(0);
                }
                println!("VIOLATION property={} replay={}", v.prop, file);
                std::process::exit(1);
            }
            None => {
                println!("replay: {} ops executed, no violation of {} observed", ops.len(), prop);
                std::process::exit(0);
            }
        }
    }

    // ------------------------------------------------------------ work items
    let mut pl = plan(prop, &tier, scale);
    // explicit overrides (sanitizer / Miri side-runs size their workloads separately)
    if let Some(n) = arg(&args, "--small").and_then(|s| s.parse().ok()) {
        pl.w1_small = n;
    }
    if let Some(n) = arg(&args, "--large").and_then(|s| s.parse().ok()) {
        pl.w1_large = n;
    }
    if let Some(n) = arg(&args, "--w2n").and_then(|s| s.parse().ok()) {
        pl.w2_n = n;
    }
    if let Some(n) = arg(&args, "--small-len").and_then(|s| s.parse().ok()) {
        pl.small_len = n;
    }
    if let Some(n) = arg(&args, "--c13").and_then(|s| s.parse().ok()) {
        pl.c13 = n;
    }
    if args.iter().any(|a| a == "--no-w3") {
        pl.w3.clear();
        pl.w3_tok = 0;
    }
    let mut items: Vec<Item> = Vec::new();
    let shapes = if pl.w2_n > 0 { w2_items(pl.w2_n) } else { Vec::new() };
    for (i, _) in shapes.iter().enumerate() {
        for fwd in [true, false] {
            for var in VARIANTS {
                let d2 = pl.w2_depth2_n > 0 && ixv::shapes::shape_size(&shapes[i]) <= pl.w2_depth2_n && !matches!(prop, "C09" | "C10" | "C11" | "C14");
                items.push(Item::W2(i, fwd, var, d2));
            }
        }
    }
    let offset: u64 = arg(&args, "--offset").and_then(|s| s.parse().ok()).unwrap_or(0);
    for i in 0..pl.w1_large {
        items.push(Item::W1(Size::Large, i + offset));
    }
    for (s, c, t) in &pl.w3 {
        items.push(Item::W3(*s, *c, *t));
    }
    if pl.w3_tok > 0 {
        items.push(Item::W3Tok(pl.w3_tok));
    }
    // interleave the many small histories behind the few long items
    for i in 0..pl.w1_small {
        items.push(Item::W1(Size::Small, i + offset));
    }
    for i in 0..pl.c13 {
        items.push(Item::C13(i));
    }
    let items = Arc::new(items);
    let shapes = Arc::new(shapes);
    let shared = Arc::new(Shared {
        next: AtomicU64::new(0),
        stop: AtomicBool::new(false),
        violations: Mutex::new(Vec::new()),
        digests: Mutex::new(Vec::new()),
    });
    let beacons: Vec<Arc<Beacon>> = (0..threads).map(|_| Arc::new(Beacon::default())).collect();
    spawn_watchdog(beacons.clone(), stall_secs, replay_dir.clone(), prop, profile.clone(), seed);

    let mut handles = Vec::new();
    for t in 0..threads {
        let items = items.clone();
        let shapes = shapes.clone();
        let shared = shared.clone();
        let beacon = beacons[t].clone();
        let profile = profile.clone();
        let want_digests = digest_path.is_some();
        let pl = pl.clone();
        let h = std::thread::Builder::new()
            .stack_size(64 << 20)
            .spawn(move || {
                let ctx = Ctx { prop, seed, profile, always_heavy: false, beacon };
                let mut cov = Cov::default();
                let mut pretty = PrettyHook { shapes: HashSet::new() };
                loop {
                    if shared.stop.load(Ordering::Relaxed) {
                        break;
                    }
                    let i = shared.next.fetch_add(1, Ordering::Relaxed) as usize;
                    if i >= items.len() {
                        break;
                    }
                    let r: Result<Option<Violation>, String> = ixv::exec::guarded(|| match &items[i] {
                        Item::W1(size, idx) => {
                            let cfg = W1Cfg {
                                size: *size,
                                len: if *size == Size::Small { pl.small_len } else { pl.large_len },
                                gen: gen_cfg(prop, *size),
                                tok: prop == "C08",
                                sample: *idx < 2,
                            };
                            let out = match prop {
                                "C08" => run_w1::<Tok>(&ctx, &cfg, *idx, &mut cov, &mut NoHook),
                                "C14" => run_w1::<Txt>(&ctx, &cfg, *idx, &mut cov, &mut pretty),
                                "C11" => {
                                    // the size of Node<T> is an input of get_node_id: payloads of several sizes,
                                    // two of them giving a power-of-two node size
                                    use ixv::payload::Wide;
                                    use indextree::Node;
                                    macro_rules! sized {
                                        ($t:ty) => {{
                                            cov.maxi(&format!("histories_with_node_size_{}", std::mem::size_of::<Node<$t>>()), idx / 5 + 1);
                                            run_w1::<$t>(&ctx, &cfg, *idx, &mut cov, &mut NoHook)
                                        }};
                                    }
                                    match idx % 5 {
                                        0 => sized!(Plain),
                                        1 => sized!(Wide<4>),
                                        2 => sized!(Wide<20>),
                                        3 => sized!(Wide<1>),
                                        _ => sized!(Wide<7>),
                                    }
                                }
                                "C17" => {
                                    let mut b = ixv::special::BatteryHook::default();
                                    let mut o = run_w1::<Plain>(&ctx, &cfg, *idx, &mut cov, &mut b);
                                    o.digest.u(b.d.0);
                                    o.digest.u(b.d.1);
                                    o
                                }
                                #[cfg(feature = "deser")]
                                "C16" => {
                                    // struct payload and bare-number payload alternate (their serialised forms differ in kind)
                                    if idx % 2 == 0 {
                                        run_w1::<Plain>(&ctx, &cfg, *idx, &mut cov, &mut ixv::special::SerdeHook { shadows: Vec::new() })
                                    } else {
                                        cov.bump("histories_with_bare_integer_payload");
                                        run_w1::<u64>(&ctx, &cfg, *idx, &mut cov, &mut ixv::special::SerdeHook { shadows: Vec::new() })
                                    }
                                }
                                "C02" if idx % 4 == 3 => {
                                    // multi-line text payloads: printing is an API call that has to return, too
                                    run_w1::<Txt>(&ctx, &cfg, *idx, &mut cov, &mut ixv::special::PrintReturnsHook)
                                }
                                // a payload type with a destructor (mem::needs_drop::<T>() is true) every third history
                                _ if idx % 3 == 2 => run_w1::<Tok>(&ctx, &cfg, *idx, &mut cov, &mut NoHook),
                                _ => run_w1::<Plain>(&ctx, &cfg, *idx, &mut cov, &mut NoHook),
                            };
                            if want_digests {
                                cov.digests.push((format!("w1-{:?}-{}", size, idx), out.digest.hex()));
                            }
                            out.violation
                        }
                        Item::W2(si, fwd, var, d2) => match prop {
                            "C14" => {
                                let mut hook = |c: &Ctx, st: &mut ixv::exec::State<Txt>, rng: &mut ixv::rng::Rng, cov: &mut Cov| {
                                    let dummy = st.step(&Op::Reserve(0));
                                    <PrettyHook as Hook<Txt>>::after_step(&mut pretty, c, st, &dummy, true, rng, cov)
                                };
                                run_w2_item::<Txt>(&ctx, &shapes[*si], *fwd, *var, *d2, &mut cov, &mut hook)
                            }
                            _ => run_w2_item::<Plain>(&ctx, &shapes[*si], *fwd, *var, *d2, &mut cov, &mut |_, _, _, _| Vec::new()),
                        },
                        Item::W3(s, c, t) => run_w3(&ctx, *s, *c, *t, &mut cov),
                        Item::C13(idx) => run_c13(&ctx, *idx, &mut cov),
                        Item::W3Tok(c) => run_w3_tok(&ctx, *c, &mut cov),
                    });
                    match r {
                        Ok(Some(v)) => {
                            let mut vs = shared.violations.lock().unwrap();
                            if !vs.iter().any(|x: &Violation| x.sig == v.sig) {
                                vs.push(v);
                            }
                            if vs.len() >= 12 {
                                shared.stop.store(true, Ordering::Relaxed);
                            }
                        }
                        Ok(None) => {}
                        Err(p) => {
                            // a panic of the harness itself: never a verdict about the library
                            cov.bump("harness_errors");
                            let mut d = shared.digests.lock().unwrap();
                            d.push(("HARNESS-ERROR".into(), p));
                        }
                    }
                }
                ctx.beacon.current.lock().unwrap().0.clear();
                cov
            })
            .unwrap();
        handles.push(h);
    }
    let mut cov = Cov::default();
    for h in handles {
        cov.merge(h.join().expect("worker thread died"));
    }
    #[cfg(feature = "macros")]
    if prop == "C08" {
        match ixv::exec::guarded(ixv::special::c08_macro_battery) {
            Ok(Ok(n)) => cov.add("macro_payload_drop_checks", n),
            Ok(Err((sig, detail))) => shared.violations.lock().unwrap().push(Violation { prop: "C08".into(), sig: format!("macro/{}", sig), detail, workload: "macro-battery".into(), step: 0, ops: Vec::new() }),
            Err(p) => shared.violations.lock().unwrap().push(Violation { prop: "C08".into(), sig: "macro/panic".into(), detail: p, workload: "macro-battery".into(), step: 0, ops: Vec::new() }),
        }
    }
    #[cfg(feature = "macros")]
    if prop == "C17" {
        match ixv::special::macro_battery() {
            Ok(n) => cov.add("macro_battery_nodes_compared", n),
            Err(e) => shared.violations.lock().unwrap().push(Violation {
                prop: "C17".into(),
                sig: "battery/macro-differs".into(),
                detail: e,
                workload: "macro-battery".into(),
                step: 0,
                ops: Vec::new(),
            }),
        }
    }
    let wall = t0.elapsed().as_secs_f64();

    // ------------------------------------------------------------ verdict
    let violations = shared.violations.lock().unwrap().clone();
    let mut reported = 0;
    let mut known_hit: Vec<String> = Vec::new();
    let mut vjson = Vec::new();
    for v in &violations {
        if let Some((p, _, text)) = known.iter().find(|(p, s, _)| p == &v.prop && s == &v.sig) {
            let line = format!("KNOWN-FINDING: property={} {}", p, text);
            if !known_hit.contains(&line) {
                println!("{}", line);
                known_hit.push(line);
            }
            continue;
        }
        let path = write_replay(&replay_dir, v, &profile, seed);
        println!("VIOLATION property={} replay={}", v.prop, path);
        println!("  signature: {}", v.sig);
        println!("  detail: {}", v.detail.lines().next().unwrap_or(""));
        println!("  workload: {} step {} ({} ops)", v.workload, v.step, v.ops.len());
        reported += 1;
        vjson.push(J::obj(vec![
            ("signature", J::s(v.sig.clone())),
            ("detail", J::s(v.detail.clone())),
            ("workload", J::s(v.workload.clone())),
            ("replay", J::s(path)),
        ]));
    }
    let harness_errors: Vec<String> = shared.digests.lock().unwrap().iter().filter(|d| d.0 == "HARNESS-ERROR").map(|d| d.1.clone()).collect();
    for e in harness_errors.iter().take(3) {
        println!("HARNESS-ERROR {}", e);
    }
    if let Some(p) = &digest_path {
        let mut d = cov.digests.clone();
        d.sort();
        let mut s = String::new();
        for (k, v) in d {
            s.push_str(&format!("{} {}\n", k, v));
        }
        let _ = std::fs::write(p, s);
    }
    let mut j = cov.to_json();
    if let J::O(ref mut v) = j {
        v.push(("profile".into(), J::s(profile.clone())));
        v.push(("threads".into(), J::U(threads as u64)));
        v.push(("wall_s".into(), J::F(wall)));
        v.push(("violations".into(), J::A(vjson)));
        v.push(("known_findings_hit".into(), J::A(known_hit.iter().map(|s| J::s(s.clone())).collect())));
        v.push(("harness_errors".into(), J::U(harness_errors.len() as u64)));
        v.push(("w2_max_nodes".into(), J::U(pl.w2_n as u64)));
        v.push(("w2_shapes".into(), J::U(shapes.len() as u64)));
        v.push(("w2_depth2_max_nodes".into(), J::U(pl.w2_depth2_n as u64)));
        v.push(("plan".into(), J::s(format!("{:?}", pl))));
    }
    if let Some(p) = &out_path {
        let _ = std::fs::write(p, j.to_string());
    }
    println!(
        "mon {} {} {} seed={} : histories={} calls={} evaluations={} observations={} distinct={} abandoned={} wall={:.1}s",
        prop,
        tier,
        profile,
        seed,
        cov.histories,
        cov.calls,
        cov.evaluations,
        cov.observations,
        cov.distinct.len(),
        cov.abandoned.values().sum::<u64>(),
        wall
    );
    if reported > 0 {
        std::process::exit(1);
    }
    if !harness_errors.is_empty() {
        println!("INCONCLUSIVE harness error");
        std::process::exit(2);
    }
    if cov.evaluations == 0 {
        println!("INCONCLUSIVE no monitor evaluation happened");
        std::process::exit(2);
    }
    std::process::exit(0);
}

/// Call-return watchdog: a worker whose tick does not advance for `secs`
/// seconds is stuck inside one library call.  The stalled history is written
/// out and the process exits with status 3; the driver decides what that means.
fn spawn_watchdog(beacons: Vec<Arc<Beacon>>, secs: u64, dir: String, prop: &'static str, profile: String, seed: u64) {
    std::thread::spawn(move || {
        let mut last: Vec<(u64, Instant)> = beacons.iter().map(|b| (b.tick.load(Ordering::Relaxed), Instant::now())).collect();
        loop {
            std::thread::sleep(Duration::from_millis(500));
            for (i, b) in beacons.iter().enumerate() {
                let t = b.tick.load(Ordering::Relaxed);
                if t != last[i].0 {
                    last[i] = (t, Instant::now());
                } else if t > 0 && last[i].1.elapsed() > Duration::from_secs(secs) {
                    // only a worker that is inside a history can stall
                    let cur = match b.current.try_lock() {
                        Ok(c) => c.clone(),
                        Err(_) => continue,
                    };
                    if cur.0.is_empty() {
                        continue;
                    }
                    let v = Violation {
                        prop: prop.to_string(),
                        sig: "stall/call-did-not-return".into(),
                        detail: format!("no progress for {} s inside `{}`", secs, cur.1.last().map(|o| o.to_text()).unwrap_or_default()),
                        workload: cur.0.clone(),
                        step: cur.1.len().saturating_sub(1),
                        ops: cur.1.clone(),
                    };
                    let path = write_replay(&dir, &v, &profile, seed);
                    println!("STALL property={} replay={}", prop, path);
                    std::process::exit(3);
                }
            }
        }
    });
}
