//! E4 / W4: many threads read one shared `&Arena` (directly and through
//! par_iter); every reader must observe exactly what a single thread observes.

use ixv::payload::Plain;
use ixv::special::{build_shared, read_battery};
use std::collections::HashSet;
use std::sync::atomic::{AtomicU64, Ordering};

fn arg(args: &[String], name: &str) -> Option<String> {
    args.iter().position(|a| a == name).and_then(|i| args.get(i + 1).cloned())
}

/// Long-lived reader threads (and rayon's persistent pool) keep reading one arena that the main thread
/// edits IN PLACE between rounds (moves only: storage address and count() stay the same).  Whatever a
/// reader thread may have remembered from an earlier round must not show in a later one.
fn persistent_phase(seed: u64, arenas: u64, threads: usize, len: usize, max_live: usize) -> (u64, u64, String) {
    use ixv::exec::{guarded, State};
    use ixv::gen::{Gen, GenCfg, Persona};
    use ixv::ops::Op;
    use ixv::rng::{Digest, Rng};
    use std::sync::{mpsc, Arc, RwLock};
    let shared: Arc<RwLock<State<Plain>>> = Arc::new(RwLock::new(State::new()));
    let (rtx, rrx) = mpsc::channel::<(usize, Digest, bool)>();
    let mut txs = Vec::new();
    let mut handles = Vec::new();
    for t in 0..threads {
        let (tx, rx) = mpsc::channel::<u64>();
        txs.push(tx);
        let sh = shared.clone();
        let rtx = rtx.clone();
        handles.push(std::thread::spawn(move || {
            while let Ok(round_seed) = rx.recv() {
                if round_seed == u64::MAX {
                    break;
                }
                let g = sh.read().unwrap();
                let r = guarded(|| read_battery(&g.arena, round_seed ^ (t as u64 + 1), &|| ()));
                drop(g);
                let failed = r.is_err();
                let _ = rtx.send((t, r.unwrap_or_default(), failed));
            }
        }));
    }
    let mut rounds = 0u64;
    let mut mismatches = 0u64;
    let mut detail = String::new();
    'outer: for ai in 0..arenas {
        {
            let mut w = shared.write().unwrap();
            *w = build_shared(seed, 5000 + ai, len, max_live);
        }
        let mut rng = Rng::derive(seed, 181, ai);
        let mut gen = Gen::new(GenCfg::small(), Persona::Chains);
        gen.cfg.impossible = false;
        gen.cfg.removed_args = false;
        for round in 0..4u64 {
            if round > 0 {
                let mut w = shared.write().unwrap();
                let mut done = 0;
                for _ in 0..60 {
                    let op = gen.next_op(&mut rng, &w.model);
                    if matches!(op, Op::Ins { .. } | Op::Detach(_)) {
                        let info = w.step(&op);
                        if info.diverged {
                            break 'outer; // another property's business; nothing to compare against
                        }
                        done += 1;
                        if done >= 6 {
                            break;
                        }
                    }
                }
            }
            let base = {
                let g = shared.read().unwrap();
                match guarded(|| read_battery(&g.arena, 0, &|| ())) {
                    Ok(d) => d,
                    Err(_) => {
                        mismatches += 1;
                        if detail.is_empty() {
                            detail = format!("persistent readers, arena #{} round {}: the editing thread's own read-back panicked", ai, round);
                        }
                        break 'outer;
                    }
                }
            };
            for tx in &txs {
                let _ = tx.send(seed ^ (ai << 24) ^ (round << 12) ^ 0x55);
            }
            for _ in 0..threads {
                if let Ok((t, d, failed)) = rrx.recv_timeout(std::time::Duration::from_secs(120)) {
                    rounds += 1;
                    if failed || d != base {
                        mismatches += 1;
                        if detail.is_empty() {
                            detail = format!("long-lived reader thread {} , arena #{} after {} in-place edit rounds: digest {} != digest {} read by the editing thread{}", t, ai, round, d.hex(), base.hex(), if failed { " (reader panicked)" } else { "" });
                        }
                    }
                }
            }
            #[cfg(feature = "par_iter")]
            {
                use rayon::prelude::*;
                let g = shared.read().unwrap();
                let a = &g.arena;
                let seq: Vec<(usize, usize, usize)> = a.iter().filter(|n| !n.is_removed()).map(|n| {
                    let id = a.get_node_id(n).unwrap();
                    (id.following_siblings(a).rev().count(), id.preceding_siblings(a).rev().map(usize::from).sum::<usize>(), id.following_siblings(a).map(usize::from).sum::<usize>())
                }).collect();
                let par: Vec<(usize, usize, usize)> = a.par_iter().filter(|n| !n.is_removed()).map(|n| {
                    let id = a.get_node_id(n).unwrap();
                    (id.following_siblings(a).rev().count(), id.preceding_siblings(a).rev().map(usize::from).sum::<usize>(), id.following_siblings(a).map(usize::from).sum::<usize>())
                }).collect();
                rounds += 1;
                if par != seq {
                    mismatches += 1;
                    if detail.is_empty() {
                        detail = format!("rayon workers, arena #{} after {} in-place edit rounds: sibling traversals inside par_iter differ from the sequential ones", ai, round);
                    }
                }
            }
        }
    }
    for tx in &txs {
        let _ = tx.send(u64::MAX);
    }
    for h in handles {
        let _ = h.join();
    }
    (rounds, mismatches, detail)
}

/// One LARGE arena (tens of thousands of nodes) walked by all threads at the same moment (they start behind a
/// barrier): long walks are where anything a walk keeps outside its own iterator (a process-wide step budget,
/// a cache keyed by position) is shared between the threads for long enough to show.
fn big_phase(seed: u64, nodes: usize, threads: usize, reps: usize) -> (u64, u64, String) {
    use indextree::Arena;
    use ixv::rng::{Digest, Rng};
    let mut rng = Rng::derive(seed, 182, nodes as u64);
    let mut a: Arena<Plain> = Arena::with_capacity(rng.below(nodes + 1));
    let mut ids = Vec::with_capacity(nodes);
    let root = a.new_node(Plain { tid: 1, val: 0 });
    ids.push(root);
    for i in 1..nodes {
        let n = a.new_node(Plain { tid: 1 + i as u64, val: rng.below(1000) as u64 });
        // recent parents make it deep, early parents make it wide
        let p = if rng.chance(1, 2) { ids[ids.len() - 1 - rng.below(ids.len().min(6))] } else { ids[rng.below(ids.len())] };
        if rng.chance(3, 4) {
            p.append(n, &mut a);
        } else {
            p.prepend(n, &mut a);
        }
        ids.push(n);
    }
    // some holes, so that slots and positions differ
    for _ in 0..nodes / 50 {
        let v = ids[1 + rng.below(ids.len() - 1)];
        if !v.is_removed(&a) {
            v.remove(&mut a);
        }
    }
    let a = &a;
    let walk = |salt: u64| -> Digest {
        let mut d = Digest::default();
        let mut r = Rng::new(salt);
        for x in root.descendants(a) { d.u(usize::from(x) as u64) }
        d.u(1 << 41);
        if salt != 0 && r.chance(1, 3) { std::thread::yield_now(); }
        for e in root.traverse(a) { d.s(&format!("{:?}", e)) }
        d.u(2 << 41);
        for e in root.reverse_traverse(a) { d.s(&format!("{:?}", e)) }
        d.u(3 << 41);
        d.s(&format!("{}", root.debug_pretty_print(a)));
        d.u(4 << 41);
        d.u(root.descendants(a).count() as u64);
        d.u(root.traverse(a).filter(|e| matches!(e, indextree::NodeEdge::End(_))).count() as u64);
        let mut deepest = (0usize, root);
        for n in a.iter().filter(|n| !n.is_removed()).step_by(97) {
            let id = a.get_node_id(n).unwrap();
            let depth = id.ancestors(a).count();
            if depth > deepest.0 { deepest = (depth, id) }
            d.u(depth as u64);
            d.u(id.children(a).count() as u64);
            d.u(id.following_siblings(a).count() as u64);
            d.u(id.descendants(a).take(5000).count() as u64);
        }
        for x in deepest.1.ancestors(a) { d.u(usize::from(x) as u64) }
        d
    };
    let base = match ixv::exec::guarded(|| walk(0)) {
        Ok(d) => d,
        Err(p) => return (0, 1, format!("large arena ({} nodes): the single-threaded walk panicked: {}", nodes, p)),
    };
    let mut runs = 0u64;
    let mut mism = 0u64;
    let mut detail = String::new();
    for rep in 0..reps {
        let barrier = std::sync::Barrier::new(threads);
        let res: Vec<Result<Digest, String>> = std::thread::scope(|s| {
            let hs: Vec<_> = (0..threads).map(|t| { let barrier = &barrier; let walk = &walk; s.spawn(move || { barrier.wait(); ixv::exec::guarded(|| walk(seed ^ ((rep as u64) << 8) ^ (t as u64 + 1))) }) }).collect();
            hs.into_iter().map(|h| h.join().unwrap()).collect()
        });
        for (t, r) in res.into_iter().enumerate() {
            runs += 1;
            let bad = match &r { Ok(d) => *d != base, Err(_) => true };
            if bad {
                mism += 1;
                if detail.is_empty() {
                    detail = format!("large arena ({} nodes), {} threads walking it at once, rep {} thread {}: {}", nodes, threads, rep, t, match r { Ok(d) => format!("digest {} != single-thread digest {}", d.hex(), base.hex()), Err(p) => format!("reader panicked: {}", p.chars().take(160).collect::<String>()) });
                }
            }
        }
    }
    (runs, mism, detail)
}

fn main() {
    let args: Vec<String> = std::env::args().collect();
    let seed: u64 = arg(&args, "--seed").and_then(|s| s.parse().ok()).unwrap_or(1);
    let arenas: u64 = arg(&args, "--arenas").and_then(|s| s.parse().ok()).unwrap_or(200);
    let threads: usize = arg(&args, "--threads").and_then(|s| s.parse().ok()).unwrap_or(16);
    let len: usize = arg(&args, "--len").and_then(|s| s.parse().ok()).unwrap_or(120);
    let max_live: usize = arg(&args, "--max-live").and_then(|s| s.parse().ok()).unwrap_or(40);
    let reps: usize = arg(&args, "--reps").and_then(|s| s.parse().ok()).unwrap_or(3);
    ixv::exec::install_quiet_panic_hook();
    let mut mismatches = 0u64;
    let mut reads = 0u64;
    let mut signatures: HashSet<u64> = HashSet::new();
    let mut shapes: HashSet<u64> = HashSet::new();
    let mut nodes_total = 0u64;
    let mut par_cmp = 0u64;
    let mut first_detail = String::new();
    for ai in 0..arenas {
        let st = build_shared(seed, ai, len, max_live);
        let arena = &st.arena;
        let snapshot = arena.clone();
        shapes.insert(st.model.forest_hash());
        nodes_total += st.model.live_count() as u64;
        let base = match ixv::exec::guarded(|| read_battery(arena, 0, &|| ())) {
            Ok(d) => d,
            Err(p) => {
                if mismatches > 0 {
                    // an earlier arena's readers already left damage behind (reported below)
                    break;
                }
                println!("READERS-INCONCLUSIVE single-threaded battery panicked: {}", p);
                std::process::exit(2);
            }
        };
        let clock = AtomicU64::new(0);
        for rep in 0..reps {
            let results: Vec<(ixv::rng::Digest, Vec<u64>, bool)> = std::thread::scope(|s| {
                let hs: Vec<_> = (0..threads)
                    .map(|t| {
                        let clock = &clock;
                        s.spawn(move || {
                            let stamps = std::cell::RefCell::new(Vec::new());
                            // relaxed: adds no happens-before edge, so it cannot hide a race from the detectors
                            let stamp = || stamps.borrow_mut().push(clock.fetch_add(1, Ordering::Relaxed));
                            let r = ixv::exec::guarded(|| read_battery(arena, seed ^ (ai << 20) ^ ((rep as u64) << 10) ^ (t as u64 + 1), &stamp));
                            match r {
                                Ok(d) => (d, stamps.into_inner(), false),
                                Err(_) => (ixv::rng::Digest::default(), stamps.into_inner(), true),
                            }
                        })
                    })
                    .collect();
                hs.into_iter().map(|h| h.join().unwrap()).collect()
            });
            // interleaving signature: order in which the threads passed their checkpoints
            let mut ev: Vec<(u64, usize)> = Vec::new();
            for (t, (_, stamps, _)) in results.iter().enumerate() {
                for s in stamps {
                    ev.push((*s, t));
                }
            }
            ev.sort();
            let mut sig = ixv::rng::Digest::default();
            for (_, t) in &ev {
                sig.u(*t as u64);
            }
            signatures.insert(sig.0);
            for (t, (d, _, panicked)) in results.iter().enumerate() {
                reads += 1;
                if *panicked || *d != base {
                    mismatches += 1;
                    if first_detail.is_empty() {
                        first_detail = format!("arena #{} rep {} thread {}: reader digest {} != single-thread digest {}{}", ai, rep, t, d.hex(), base.hex(), if *panicked { " (reader panicked)" } else { "" });
                    }
                }
            }
        }
        #[cfg(feature = "par_iter")]
        {
            use rayon::prelude::*;
            let seq: Vec<(usize, bool, u64)> = arena.iter().map(|n| (n as *const _ as usize, n.is_removed(), if n.is_removed() { 0 } else { n.get().tid })).collect();
            for _ in 0..reps {
                let par: Vec<(usize, bool, u64)> = arena.par_iter().map(|n| (n as *const _ as usize, n.is_removed(), if n.is_removed() { 0 } else { n.get().tid })).collect();
                par_cmp += 1;
                if par != seq {
                    mismatches += 1;
                    if first_detail.is_empty() {
                        first_detail = format!("arena #{}: par_iter() visited different nodes than iter()", ai);
                    }
                }
                // traversals inside a parallel consumer
                let total: usize = arena.par_iter().filter(|n| !n.is_removed()).map(|n| arena.get_node_id(n).unwrap().descendants(arena).count()).sum();
                let total_seq: usize = arena.iter().filter(|n| !n.is_removed()).map(|n| arena.get_node_id(n).unwrap().descendants(arena).count()).sum();
                if total != total_seq {
                    mismatches += 1;
                    if first_detail.is_empty() {
                        first_detail = format!("arena #{}: descendants counted inside par_iter = {}, sequentially = {}", ai, total, total_seq);
                    }
                }
            }
        }
        let after = ixv::exec::guarded(|| read_battery(arena, 0, &|| ())).unwrap_or_default();
        if after != base || *arena != snapshot {
            mismatches += 1;
            if first_detail.is_empty() {
                first_detail = format!("arena #{}: reading changed the arena (digest before {} after {}, equal to snapshot: {})", ai, base.hex(), after.hex(), *arena == snapshot);
            }
        }
    }
    let (p_rounds, p_mism, p_detail) = persistent_phase(seed, (arenas / 2).max(1), threads.min(8), len, max_live);
    mismatches += p_mism;
    reads += p_rounds;
    if first_detail.is_empty() {
        first_detail = p_detail;
    }
    let big: usize = arg(&args, "--big").and_then(|s| s.parse().ok()).unwrap_or(0);
    let mut big_runs = 0u64;
    if big > 0 {
        let (r, m, d) = big_phase(seed, big, threads, reps);
        big_runs = r;
        mismatches += m;
        if first_detail.is_empty() {
            first_detail = d;
        }
    }
    if mismatches > 0 {
        println!("READERS-FINDING {}", first_detail);
    }
    println!(
        "{{\"arenas\":{},\"reader_runs\":{},\"threads\":{},\"distinct_interleaving_signatures\":{},\"distinct_arena_shapes\":{},\"live_nodes_total\":{},\"par_iter_comparisons\":{},\"reads_by_long_lived_threads_after_in_place_edits\":{},\"simultaneous_walks_of_one_large_arena\":{},\"large_arena_nodes\":{},\"mismatches\":{}}}",
        arenas,
        reads,
        threads,
        signatures.len(),
        shapes.len(),
        nodes_total,
        par_cmp,
        p_rounds,
        big_runs,
        big,
        mismatches
    );
    if mismatches > 0 {
        std::process::exit(1);
    }
}
