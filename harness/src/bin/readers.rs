//! E4 / W4: many threads read one shared `&Arena` (directly and through
//! par_iter); every reader must observe exactly what a single thread observes.

use ixv::payload::Plain;
use ixv::special::{build_shared, read_battery};
use std::collections::HashSet;
use std::sync::atomic::{AtomicU64, Ordering};

fn arg(args: &[String], name: &str) -> Option<String> {
    args.iter().position(|a| a == name).and_then(|i| args.get(i + 1).cloned())
}

fn main() {
    let args: Vec<String> = std::env::args().collect();
    let seed: u64 = arg(&args, "--seed").and_then(|s| s.parse().ok()).unwrap_or(1);
    let arenas: u64 = arg(&args, "--arenas").and_then(|s| s.parse().ok()).unwrap_or(200);
    let threads: usize = arg(&args, "--threads").and_then(|s| s.parse().ok()).unwrap_or(16);
    let len: usize = arg(&args, "--len").and_then(|s| s.parse().ok()).unwrap_or(120);
    let max_live: usize = arg(&args, "--max-live").and_then(|s| s.parse().ok()).unwrap_or(40);
    let reps: usize = arg(&args, "--reps").and_then(|s| s.parse().ok()).unwrap_or(3);
    ixv::exec::install_quiet_panic_hook();
    let mut mismatches = 0u64;
    let mut reads = 0u64;
    let mut signatures: HashSet<u64> = HashSet::new();
    let mut shapes: HashSet<u64> = HashSet::new();
    let mut nodes_total = 0u64;
    let mut par_cmp = 0u64;
    let mut first_detail = String::new();
    for ai in 0..arenas {
        let st = build_shared(seed, ai, len, max_live);
        let arena = &st.arena;
        let snapshot = arena.clone();
        shapes.insert(st.model.forest_hash());
        nodes_total += st.model.live_count() as u64;
        let base = match ixv::exec::guarded(|| read_battery(arena, 0, &|| ())) {
            Ok(d) => d,
            Err(p) => {
                if mismatches > 0 {
                    // an earlier arena's readers already left damage behind (reported below)
                    break;
                }
                println!("READERS-INCONCLUSIVE single-threaded battery panicked: {}", p);
                std::process::exit(2);
            }
        };
        let clock = AtomicU64::new(0);
        for rep in 0..reps {
            let results: Vec<(ixv::rng::Digest, Vec<u64>, bool)> = std::thread::scope(|s| {
                let hs: Vec<_> = (0..threads)
                    .map(|t| {
                        let clock = &clock;
                        s.spawn(move || {
                            let stamps = std::cell::RefCell::new(Vec::new());
                            // relaxed: adds no happens-before edge, so it cannot hide a race from the detectors
                            let stamp = || stamps.borrow_mut().push(clock.fetch_add(1, Ordering::Relaxed));
                            let r = ixv::exec::guarded(|| read_battery(arena, seed ^ (ai << 20) ^ ((rep as u64) << 10) ^ (t as u64 + 1), &stamp));
                            match r {
                                Ok(d) => (d, stamps.into_inner(), false),
                                Err(_) => (ixv::rng::Digest::default(), stamps.into_inner(), true),
                            }
                        })
                    })
                    .collect();
                hs.into_iter().map(|h| h.join().unwrap()).collect()
            });
            // interleaving signature: order in which the threads passed their checkpoints
            let mut ev: Vec<(u64, usize)> = Vec::new();
            for (t, (_, stamps, _)) in results.iter().enumerate() {
                for s in stamps {
                    ev.push((*s, t));
                }
            }
            ev.sort();
            let mut sig = ixv::rng::Digest::default();
            for (_, t) in &ev {
                sig.u(*t as u64);
            }
            signatures.insert(sig.0);
            for (t, (d, _, panicked)) in results.iter().enumerate() {
                reads += 1;
                if *panicked || *d != base {
                    mismatches += 1;
                    if first_detail.is_empty() {
                        first_detail = format!("arena #{} rep {} thread {}: reader digest {} != single-thread digest {}{}", ai, rep, t, d.hex(), base.hex(), if *panicked { " (reader panicked)" } else { "" });
                    }
                }
            }
        }
        #[cfg(feature = "par_iter")]
        {
            use rayon::prelude::*;
            let seq: Vec<(usize, bool, u64)> = arena.iter().map(|n| (n as *const _ as usize, n.is_removed(), if n.is_removed() { 0 } else { n.get().tid })).collect();
            for _ in 0..reps {
                let par: Vec<(usize, bool, u64)> = arena.par_iter().map(|n| (n as *const _ as usize, n.is_removed(), if n.is_removed() { 0 } else { n.get().tid })).collect();
                par_cmp += 1;
                if par != seq {
                    mismatches += 1;
                    if first_detail.is_empty() {
                        first_detail = format!("arena #{}: par_iter() visited different nodes than iter()", ai);
                    }
                }
                // traversals inside a parallel consumer
                let total: usize = arena.par_iter().filter(|n| !n.is_removed()).map(|n| arena.get_node_id(n).unwrap().descendants(arena).count()).sum();
                let total_seq: usize = arena.iter().filter(|n| !n.is_removed()).map(|n| arena.get_node_id(n).unwrap().descendants(arena).count()).sum();
                if total != total_seq {
                    mismatches += 1;
                    if first_detail.is_empty() {
                        first_detail = format!("arena #{}: descendants counted inside par_iter = {}, sequentially = {}", ai, total, total_seq);
                    }
                }
            }
        }
        let after = ixv::exec::guarded(|| read_battery(arena, 0, &|| ())).unwrap_or_default();
        if after != base || *arena != snapshot {
            mismatches += 1;
            if first_detail.is_empty() {
                first_detail = format!("arena #{}: reading changed the arena (digest before {} after {}, equal to snapshot: {})", ai, base.hex(), after.hex(), *arena == snapshot);
            }
        }
    }
    if mismatches > 0 {
        println!("READERS-FINDING {}", first_detail);
    }
    println!(
        "{{\"arenas\":{},\"reader_runs\":{},\"threads\":{},\"distinct_interleaving_signatures\":{},\"distinct_arena_shapes\":{},\"live_nodes_total\":{},\"par_iter_comparisons\":{},\"mismatches\":{}}}",
        arenas,
        reads,
        threads,
        signatures.len(),
        shapes.len(),
        nodes_total,
        par_cmp,
        mismatches
    );
    if mismatches > 0 {
        std::process::exit(1);
    }
}
