//! Payload types stored in the arenas under observation.

use std::cell::RefCell;
use std::fmt;

/// With the `deser` feature every payload is serialisable (the copy probe then also makes copies through
/// a serde round trip); without it the bound is empty.
#[cfg(feature = "deser")]
pub trait MaybeSerde: serde::Serialize + serde::de::DeserializeOwned {}
#[cfg(feature = "deser")]
impl<T: serde::Serialize + serde::de::DeserializeOwned> MaybeSerde for T {}
#[cfg(not(feature = "deser"))]
pub trait MaybeSerde {}
#[cfg(not(feature = "deser"))]
impl<T> MaybeSerde for T {}

pub trait Payload: Clone + PartialEq + fmt::Debug + MaybeSerde + 'static {
    fn make(tid: u64, val: u64) -> Self;
    fn tid(&self) -> u64;
    fn val(&self) -> u64;
    fn set_val(&mut self, v: u64);
}

thread_local! {
    static DISPLAY_PANICS: std::cell::Cell<bool> = const { std::cell::Cell::new(false) };
}

/// While set (per thread), rendering a `Plain` / `Txt` payload panics: a reader that dies inside a dump.
pub fn set_display_panics(on: bool) {
    DISPLAY_PANICS.with(|d| d.set(on));
}

fn maybe_panic_in_display() {
    if DISPLAY_PANICS.with(|d| d.get()) {
        panic!("payload Display asked to panic");
    }
}

/// payloads of different sizes (the size of `Node<T>` is an input of `get_node_id`'s index arithmetic)
#[derive(Clone, PartialEq, Eq, Debug)]
pub struct Wide<const N: usize>(pub [u64; N]);

#[cfg(feature = "deser")]
impl<const N: usize> serde::Serialize for Wide<N> {
    fn serialize<S: serde::Serializer>(&self, s: S) -> Result<S::Ok, S::Error> {
        self.0.to_vec().serialize(s)
    }
}

#[cfg(feature = "deser")]
impl<'de, const N: usize> serde::Deserialize<'de> for Wide<N> {
    fn deserialize<D: serde::Deserializer<'de>>(d: D) -> Result<Self, D::Error> {
        let v = Vec::<u64>::deserialize(d)?;
        let mut a = [0u64; N];
        if v.len() != N {
            return Err(serde::de::Error::custom("wrong length"));
        }
        a.copy_from_slice(&v);
        Ok(Wide(a))
    }
}

impl<const N: usize> Payload for Wide<N> {
    fn make(tid: u64, val: u64) -> Self {
        let mut a = [0u64; N];
        a[0] = tid;
        if N > 1 {
            a[1] = val;
        }
        Wide(a)
    }
    fn tid(&self) -> u64 {
        self.0[0]
    }
    fn val(&self) -> u64 {
        if N > 1 {
            self.0[1]
        } else {
            self.0[0].wrapping_mul(1_000_003)
        }
    }
    fn set_val(&mut self, v: u64) {
        if N > 1 {
            self.0[1] = v
        }
    }
}

// ------------------------------------------------------------------- Plain

#[derive(Clone, PartialEq, Eq, Debug)]
#[cfg_attr(feature = "deser", derive(serde::Serialize, serde::Deserialize))]
pub struct Plain {
    pub tid: u64,
    pub val: u64,
}

impl Payload for Plain {
    fn make(tid: u64, val: u64) -> Self {
        Plain { tid, val }
    }
    fn tid(&self) -> u64 {
        self.tid
    }
    fn val(&self) -> u64 {
        self.val
    }
    fn set_val(&mut self, v: u64) {
        self.val = v
    }
}

impl fmt::Display for Plain {
    fn fmt(&self, f: &mut fmt::Formatter<'_>) -> fmt::Result {
        maybe_panic_in_display();
        write!(f, "n{}", self.tid)
    }
}

// a bare integer payload (serde: a number, not a struct) - used by the C16 round trips, where the
// payload's own serialised form matters; tid is the value, val is derived from it
impl Payload for u64 {
    fn make(tid: u64, _val: u64) -> Self {
        tid
    }
    fn tid(&self) -> u64 {
        *self
    }
    fn val(&self) -> u64 {
        self.wrapping_mul(1_000_003)
    }
    fn set_val(&mut self, _v: u64) {}
}


// --------------------------------------------------------------------- Tok
//
// Heap-owning payload with an observable destructor.  The drop table stores
// integers (token ids), never addresses, so it cannot hide a leaked or doubly
// freed heap block from Miri / ASan / LeakSanitizer.  Clones made by arena
// snapshots are "ghosts": they own their own heap block (so the memory tools
// still see every allocation) but are not counted as payload drops.

thread_local! {
    static DROPS: RefCell<Vec<u32>> = const { RefCell::new(Vec::new()) };
    static MADE: RefCell<u64> = const { RefCell::new(0) };
}

pub fn drops_reset() {
    DROPS.with(|d| d.borrow_mut().clear());
    MADE.with(|m| *m.borrow_mut() = 0);
}

pub fn drops_of(tid: u64) -> u32 {
    DROPS.with(|d| d.borrow().get(tid as usize).copied().unwrap_or(0))
}

pub fn drops_total() -> u64 {
    DROPS.with(|d| d.borrow().iter().map(|x| *x as u64).sum())
}

pub fn made_total() -> u64 {
    MADE.with(|m| *m.borrow())
}

pub struct Tok {
    tid: u64,
    heap: Box<u64>,
    ghost: bool,
}

impl Payload for Tok {
    fn make(tid: u64, val: u64) -> Self {
        // token ids >= 2^40 are scratch payloads made by probes on clones: owned heap block, not accounted
        let scratch = tid >= 1 << 40;
        if !scratch {
            MADE.with(|m| *m.borrow_mut() += 1);
        }
        Tok {
            tid,
            heap: Box::new(val),
            ghost: scratch,
        }
    }
    fn tid(&self) -> u64 {
        self.tid
    }
    fn val(&self) -> u64 {
        *self.heap
    }
    fn set_val(&mut self, v: u64) {
        *self.heap = v
    }
}

#[cfg(feature = "deser")]
impl serde::Serialize for Tok {
    fn serialize<S: serde::Serializer>(&self, s: S) -> Result<S::Ok, S::Error> {
        (self.tid, *self.heap).serialize(s)
    }
}

#[cfg(feature = "deser")]
impl<'de> serde::Deserialize<'de> for Tok {
    fn deserialize<D: serde::Deserializer<'de>>(d: D) -> Result<Self, D::Error> {
        let (tid, val) = <(u64, u64)>::deserialize(d)?;
        // a token read back from a serialised form is a copy: own heap block, not counted as a payload drop
        Ok(Tok { tid, heap: Box::new(val), ghost: true })
    }
}

impl Clone for Tok {
    fn clone(&self) -> Self {
        Tok {
            tid: self.tid,
            heap: Box::new(*self.heap),
            ghost: true,
        }
    }
}

impl PartialEq for Tok {
    fn eq(&self, o: &Tok) -> bool {
        self.tid == o.tid && *self.heap == *o.heap
    }
}

impl fmt::Debug for Tok {
    fn fmt(&self, f: &mut fmt::Formatter<'_>) -> fmt::Result {
        write!(f, "Tok({},{})", self.tid, self.heap)
    }
}

impl Drop for Tok {
    fn drop(&mut self) {
        if !self.ghost {
            let t = self.tid as usize;
            DROPS.with(|d| {
                let mut d = d.borrow_mut();
                if d.len() <= t {
                    d.resize(t + 1, 0);
                }
                d[t] += 1;
            });
        }
    }
}

// --------------------------------------------------------------------- Txt
//
// Payload whose four renderings ({} {:#} {:?} {:#?}) are chosen texts of 1-4
// lines, written to the formatter in irregular `write_str` chunks (including
// empty chunks and chunks that are a lone "\n") to stress the printer's
// per-line state machine.

#[derive(Clone, PartialEq, Eq, Debug)]
#[cfg_attr(feature = "deser", derive(serde::Serialize, serde::Deserialize))]
pub struct TxtInner {
    pub tid: u64,
    pub val: u64,
}

#[derive(Clone, PartialEq, Eq)]
#[cfg_attr(feature = "deser", derive(serde::Serialize, serde::Deserialize))]
pub struct Txt(pub TxtInner);

impl Payload for Txt {
    fn make(tid: u64, val: u64) -> Self {
        Txt(TxtInner { tid, val })
    }
    fn tid(&self) -> u64 {
        self.0.tid
    }
    fn val(&self) -> u64 {
        self.0.val
    }
    fn set_val(&mut self, v: u64) {
        self.0.val = v
    }
}

/// mode: 0 = `{}`, 1 = `{:#}`, 2 = `{:?}`, 3 = `{:#?}`
pub fn txt_text(tid: u64, val: u64, mode: u8) -> String {
    let mut r = crate::rng::Rng::derive(tid, val, mode as u64 + 11);
    // besides the guide strings themselves: 2-, 3- and 4-byte characters, among them some whose low
    // byte alone would be an ASCII letter or a line feed (U+0142, U+0161, U+010A)
    const ALPHA: [&str; 23] = [
        "a", "b", "|", "`", "-", " ", "  ", "|   ", "`-- ", "|-- ", "é", "x", "    ", "7", "\r", "\t", "ł", "š", "Ċ", "€", "𝄞", "\u{a0}", "\u{3000}",
    ];
    let nlines = match r.below(10) {
        0..=3 => 1,
        4..=6 => 2,
        7..=8 => 3,
        _ => 4,
    };
    let mut lines: Vec<String> = Vec::new();
    for li in 0..nlines {
        // interior and leading lines may be empty; the last line may be empty only
        // if that does not make the text end in '\n' or be empty -> keep it non-empty
        let last = li + 1 == nlines;
        let empty_ok = !last;
        if empty_ok && r.chance(1, 4) {
            lines.push(String::new());
            continue;
        }
        let k = r.range(1, 4);
        let mut s = String::new();
        for _ in 0..k {
            s.push_str(ALPHA[r.below(ALPHA.len())]);
        }
        if r.chance(1, 120) {
            // now and then a VERY long line (longer than any buffer a printer is likely to keep)
            let n = [1023usize, 1024, 1025, 2500, 9000][r.below(5)];
            let unit = ALPHA[r.below(ALPHA.len())];
            while s.len() < n {
                s.push_str(unit);
                s.push('q');
            }
        }
        if r.chance(1, 2) {
            s.push_str(&format!("{}m{}", tid, mode));
        }
        if !last && r.chance(1, 5) {
            // a line that ends in a carriage return (CRLF text kept verbatim)
            s.push('\r');
        }
        lines.push(s);
    }
    let t = lines.join("\n");
    debug_assert!(!t.is_empty() && !t.ends_with('\n'));
    t
}

fn write_chunked(f: &mut fmt::Formatter<'_>, text: &str, seed: u64) -> fmt::Result {
    use std::fmt::Write as _;
    let mut r = crate::rng::Rng::new(seed ^ 0x5EED_C4A2);
    let style = r.below(7);
    let chars: Vec<char> = text.chars().collect();
    let mut i = 0;
    if style >= 4 {
        // single characters go through `write_char` (style 4: all of them, 5: only the newlines,
        // 6: a `char` argument of `write!`)
        let mut run = String::new();
        for c in chars {
            match style {
                4 => f.write_char(c)?,
                5 => {
                    if c == '\n' {
                        f.write_str(&run)?;
                        run.clear();
                        f.write_char('\n')?;
                    } else {
                        run.push(c);
                    }
                }
                _ => {
                    if c == '\n' {
                        write!(f, "{}{}", run, '\n')?;
                        run.clear();
                    } else {
                        run.push(c);
                    }
                }
            }
        }
        if !run.is_empty() {
            f.write_str(&run)?;
        }
        return Ok(());
    }
    while i < chars.len() {
        if r.chance(1, 6) {
            f.write_str("")?;
        }
        let take = match style {
            0 => chars.len() - i,             // whole text at once
            1 => 1,                           // char by char
            2 => r.range(1, 3),               // small random chunks
            _ => {
                // split exactly around newlines: "\n" alone is a chunk
                if chars[i] == '\n' {
                    1
                } else {
                    let mut k = 0;
                    while i + k < chars.len() && chars[i + k] != '\n' {
                        k += 1;
                    }
                    k
                }
            }
        };
        let take = take.min(chars.len() - i).max(1);
        let s: String = chars[i..i + take].iter().collect();
        f.write_str(&s)?;
        i += take;
    }
    if r.chance(1, 6) {
        f.write_str("")?;
    }
    Ok(())
}

impl fmt::Display for Txt {
    fn fmt(&self, f: &mut fmt::Formatter<'_>) -> fmt::Result {
        maybe_panic_in_display();
        let mode = if f.alternate() { 1 } else { 0 };
        let t = txt_text(self.0.tid, self.0.val, mode);
        write_chunked(f, &t, self.0.tid.wrapping_mul(31) ^ self.0.val ^ mode as u64)
    }
}

impl fmt::Debug for Txt {
    fn fmt(&self, f: &mut fmt::Formatter<'_>) -> fmt::Result {
        maybe_panic_in_display();
        let mode = if f.alternate() { 3 } else { 2 };
        let t = txt_text(self.0.tid, self.0.val, mode);
        write_chunked(f, &t, self.0.tid.wrapping_mul(31) ^ self.0.val ^ mode as u64)
    }
}
