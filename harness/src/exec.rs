//! Executes one operation on the real arena and on the model, at the client
//! boundary: the call is recorded, run under `catch_unwind`, its outcome is
//! compared with what the model says the documented outcome is, and the
//! post-state is compared with the model (liveness, all five links, payloads).

use crate::model::{InsKind, Links, Model, Why, H};
use crate::ops::Op;
use crate::payload::Payload;
use indextree::{Arena, NodeError, NodeId};
use std::cell::RefCell;
use std::collections::HashSet;
use std::panic::{catch_unwind, AssertUnwindSafe};

thread_local! {
    static LAST_PANIC: RefCell<Option<String>> = const { RefCell::new(None) };
}

/// Installs (once per process) a panic hook that records the message and the
/// location instead of printing them.
pub fn install_quiet_panic_hook() {
    use std::sync::Once;
    static ONCE: Once = Once::new();
    ONCE.call_once(|| {
        std::panic::set_hook(Box::new(|info| {
            let msg = if let Some(s) = info.payload().downcast_ref::<&str>() {
                s.to_string()
            } else if let Some(s) = info.payload().downcast_ref::<String>() {
                s.clone()
            } else {
                "<non-string panic>".to_string()
            };
            let loc = info
                .location()
                .map(|l| format!("{}:{}", l.file(), l.line()))
                .unwrap_or_default();
            LAST_PANIC.with(|p| *p.borrow_mut() = Some(format!("{} @ {}", msg, loc)));
        }));
    });
}

pub fn take_last_panic() -> String {
    LAST_PANIC
        .with(|p| p.borrow_mut().take())
        .unwrap_or_else(|| "<unknown panic>".into())
}

/// Runs `f`, turning a panic into `Err(message @ location)`.
pub fn guarded<R>(f: impl FnOnce() -> R) -> Result<R, String> {
    match catch_unwind(AssertUnwindSafe(f)) {
        Ok(r) => Ok(r),
        Err(_) => Err(take_last_panic()),
    }
}

#[derive(Clone, Debug)]
pub struct Finding {
    /// properties this observation refutes
    pub props: Vec<&'static str>,
    /// stable signature: monitor/op/relation/failure-kind
    pub sig: String,
    pub detail: String,
}

impl Finding {
    pub fn new(props: &[&'static str], sig: String, detail: String) -> Finding {
        Finding {
            props: props.to_vec(),
            sig,
            detail,
        }
    }
}

#[derive(Clone, Debug)]
pub enum Ret {
    Unit,
    Res(Result<(), NodeError>),
    Id(NodeId),
}

#[derive(Clone, Debug)]
pub enum Outcome {
    Ret(Ret),
    Panic(String),
}

impl Outcome {
    /// profile-independent text (panic messages are deliberately left out)
    pub fn text(&self) -> String {
        match self {
            Outcome::Ret(Ret::Unit) => "ok".into(),
            Outcome::Ret(Ret::Res(Ok(()))) => "Ok".into(),
            Outcome::Ret(Ret::Res(Err(e))) => format!("Err({:?})", e),
            Outcome::Ret(Ret::Id(id)) => format!("id@{}", usize::from(*id)),
            Outcome::Panic(_) => "panic".into(),
        }
    }
    pub fn is_panic(&self) -> bool {
        matches!(self, Outcome::Panic(_))
    }
}

/// Relation of the inserted node x to the target t (from the model, pre-call).
#[derive(Clone, Copy, Debug, PartialEq, Eq, Hash, PartialOrd, Ord)]
pub enum Rel {
    SameNode,
    TRemoved,
    XRemoved,
    BothRemoved,
    XParentOfT,
    XAncestorOfT,
    XFirstChildOfT,
    XLastChildOfT,
    XOnlyChildOfT,
    XMidChildOfT,
    XDescendantOfT,
    XPrevSiblingOfT,
    XNextSiblingOfT,
    XFarSiblingOfT,
    XChainPrevOfT,
    XChainNextOfT,
    XChainFarOfT,
    SameTreeOther,
    OtherTreeRoot,
    OtherTreeInner,
    NA,
}

pub fn classify(m: &Model, t: H, x: H) -> Rel {
    if t == x {
        return Rel::SameNode;
    }
    match (m.is_live(t), m.is_live(x)) {
        (false, false) => return Rel::BothRemoved,
        (false, true) => return Rel::TRemoved,
        (true, false) => return Rel::XRemoved,
        _ => {}
    }
    if m.parent(t) == Some(x) {
        return Rel::XParentOfT;
    }
    if m.is_ancestor(x, t) {
        return Rel::XAncestorOfT;
    }
    if m.parent(x) == Some(t) {
        let ks = m.children(t);
        return if ks.len() == 1 {
            Rel::XOnlyChildOfT
        } else if ks[0] == x {
            Rel::XFirstChildOfT
        } else if ks[ks.len() - 1] == x {
            Rel::XLastChildOfT
        } else {
            Rel::XMidChildOfT
        };
    }
    if m.is_ancestor(t, x) {
        return Rel::XDescendantOfT;
    }
    if m.nodes[t].list == m.nodes[x].list {
        let (_, it) = m.pos(t);
        let (_, ix) = m.pos(x);
        let top = m.parent(t).is_none();
        return if ix + 1 == it {
            if top {
                Rel::XChainPrevOfT
            } else {
                Rel::XPrevSiblingOfT
            }
        } else if it + 1 == ix {
            if top {
                Rel::XChainNextOfT
            } else {
                Rel::XNextSiblingOfT
            }
        } else if top {
            Rel::XChainFarOfT
        } else {
            Rel::XFarSiblingOfT
        };
    }
    // same tree (or same top-level chain) but none of the above?
    let rt = m.root_of(t);
    let rx = m.root_of(x);
    if rt == rx || m.nodes[rt].list == m.nodes[rx].list {
        return Rel::SameTreeOther;
    }
    if m.parent(x).is_none() {
        Rel::OtherTreeRoot
    } else {
        Rel::OtherTreeInner
    }
}

/// Position class of a node (for detach / remove coverage accounting).
pub fn node_class(m: &Model, h: H) -> &'static str {
    let sib = m.siblings(h);
    let (_, i) = m.pos(h);
    let has_kids = !m.children(h).is_empty();
    match (m.parent(h).is_some(), sib.len(), has_kids) {
        (false, 1, false) => "lone-root-leaf",
        (false, 1, true) => "root-with-children",
        (false, _, k) => {
            if i == 0 {
                if k { "chain-first-with-children" } else { "chain-first-leaf" }
            } else if i + 1 == sib.len() {
                if k { "chain-last-with-children" } else { "chain-last-leaf" }
            } else if k {
                "chain-middle-with-children"
            } else {
                "chain-middle-leaf"
            }
        }
        (true, 1, k) => {
            if k { "only-child-inner" } else { "only-child-leaf" }
        }
        (true, _, k) => {
            if i == 0 {
                if k { "first-child-inner" } else { "first-child-leaf" }
            } else if i + 1 == sib.len() {
                if k { "last-child-inner" } else { "last-child-leaf" }
            } else if k {
                "middle-child-inner"
            } else {
                "middle-child-leaf"
            }
        }
    }
}

pub fn init_val(tid: u64) -> u64 {
    tid.wrapping_mul(1_000_003)
}

#[derive(Clone)]
pub struct State<P: Payload> {
    pub arena: Arena<P>,
    pub model: Model,
    /// every id handed out since creation / the last clear
    pub issued: HashSet<NodeId>,
    pub steps: usize,
}

pub struct StepInfo<P: Payload> {
    pub op: Op,
    pub outcome: Outcome,
    pub rel: Rel,
    pub why: Why,
    /// arena before the call
    pub snapshot: Arena<P>,
    /// model before the call
    pub pre_model: Model,
    /// handle of the node created by this call (if any, and if accepted by the model)
    pub new_h: Option<H>,
    /// the library refused the request (Err or panic)
    pub refused: bool,
    /// the arena differs from the snapshot
    pub changed: bool,
    /// the model could not follow the library (an expectation failed); only raw
    /// monitors may still look at the arena
    pub diverged: bool,
    pub findings: Vec<Finding>,
}

fn by_op_props(op: &Op) -> &'static [&'static str] {
    match op {
        Op::Ins { .. } | Op::Detach(_) | Op::AppendValue(_) => &["C03"],
        Op::Remove(_) | Op::RemoveSubtree(_) => &["C04"],
        Op::New => &["C07"],
        Op::Write(..) | Op::Replace(_) | Op::IterMutAdd(_) => &["C08"],
        Op::Clear | Op::Reserve(_) => &["C13"],
    }
}

pub fn do_call<P: Payload>(arena: &mut Arena<P>, m: &Model, op: &Op, tid: u64) -> Outcome {
    let id = |h: H| m.nodes[h].id;
    let r = catch_unwind(AssertUnwindSafe(|| match op {
        Op::New => Ret::Id(arena.new_node(P::make(tid, init_val(tid)))),
        Op::AppendValue(p) => Ret::Id(id(*p).append_value(P::make(tid, init_val(tid)), arena)),
        Op::Ins { kind, checked, t, x } => {
            let (t, x) = (id(*t), id(*x));
            if *checked {
                Ret::Res(match kind {
                    InsKind::Append => t.checked_append(x, arena),
                    InsKind::Prepend => t.checked_prepend(x, arena),
                    InsKind::After => t.checked_insert_after(x, arena),
                    InsKind::Before => t.checked_insert_before(x, arena),
                })
            } else {
                match kind {
                    InsKind::Append => t.append(x, arena),
                    InsKind::Prepend => t.prepend(x, arena),
                    InsKind::After => t.insert_after(x, arena),
                    InsKind::Before => t.insert_before(x, arena),
                }
                Ret::Unit
            }
        }
        Op::Detach(x) => {
            id(*x).detach(arena);
            Ret::Unit
        }
        Op::Remove(x) => {
            id(*x).remove(arena);
            Ret::Unit
        }
        Op::RemoveSubtree(x) => {
            id(*x).remove_subtree(arena);
            Ret::Unit
        }
        Op::Write(x, v) => {
            arena
                .get_mut(id(*x))
                .expect("get_mut returned None for a live id")
                .get_mut()
                .set_val(*v);
            Ret::Unit
        }
        Op::Replace(x) => {
            *arena[id(*x)].get_mut() = P::make(tid, init_val(tid));
            Ret::Unit
        }
        Op::IterMutAdd(k) => {
            for n in arena.iter_mut() {
                if !n.is_removed() {
                    let v = n.get().val();
                    n.get_mut().set_val(v.wrapping_add(*k));
                }
            }
            Ret::Unit
        }
        Op::Clear => {
            arena.clear();
            Ret::Unit
        }
        Op::Reserve(k) => {
            arena.reserve(*k);
            Ret::Unit
        }
    }));
    match r {
        Ok(r) => Outcome::Ret(r),
        Err(_) => Outcome::Panic(take_last_panic()),
    }
}

pub fn op_makes_payload(op: &Op) -> bool {
    matches!(op, Op::New | Op::AppendValue(_) | Op::Replace(_))
}

fn reason_applies(name: &str, why: Why) -> Option<bool> {
    if name.ends_with("Self") {
        Some(why.same)
    } else if name == "Removed" {
        Some(why.removed)
    } else if name.ends_with("Ancestor") {
        Some(why.ancestor)
    } else {
        None // unknown variant (the enum is non_exhaustive): reason not judged
    }
}

impl<P: Payload> State<P> {
    pub fn new() -> State<P> {
        State {
            arena: Arena::new(),
            model: Model::new(),
            issued: HashSet::new(),
            steps: 0,
        }
    }

    /// An arena that already has a past: a few slots, one of them recycled `worn` times, all of them
    /// free again.  Histories started here meet generation counters near their interesting values
    /// (powers of two, the end of the range) in the middle of ordinary tree operations.
    pub fn primed_worn(rng: &mut crate::rng::Rng, worn: u32, cap0: usize) -> State<P> {
        let mut arena: Arena<P> = if cap0 == 0 { Arena::new() } else { Arena::with_capacity(cap0) };
        let mut issued = HashSet::new();
        let k = rng.range(1, 4);
        let mut ids = Vec::new();
        for _ in 0..k {
            let id = arena.new_node(P::make(u64::MAX - 11, 0));
            issued.insert(id);
            ids.push(id);
        }
        let w = rng.below(k);
        let mut cur = ids[w];
        for _ in 0..worn {
            cur.remove(&mut arena);
            cur = arena.new_node(P::make(u64::MAX - 11, 1));
            issued.insert(cur);
        }
        ids[w] = cur;
        while !ids.is_empty() {
            let i = rng.below(ids.len());
            ids.swap_remove(i).remove(&mut arena);
        }
        let mut model = Model::new();
        let n = arena.count();
        model.slot_cur = vec![None; n];
        model.recycles = vec![0; n];
        model.recycles[w] = worn;
        // every slot that the arena still offers is available; a slot the library has retired during
        // priming stays in the set as well (it is beyond the retirement threshold)
        model.avail = (0..n).collect();
        for s in 0..n {
            if s != w && n > k {
                // the worn slot was retired early and the churn moved on to fresh slots: treat them as worn too
                model.recycles[s] = worn;
            }
        }
        State { arena, model, issued, steps: 0 }
    }

    pub fn with_arena(arena: Arena<P>) -> State<P> {
        State {
            arena,
            model: Model::new(),
            issued: HashSet::new(),
            steps: 0,
        }
    }

    pub fn id(&self, h: H) -> NodeId {
        self.model.nodes[h].id
    }

    fn idl(&self, l: Option<H>) -> Option<NodeId> {
        l.map(|h| self.model.nodes[h].id)
    }

    pub fn expected_links(&self, h: H) -> [Option<NodeId>; 5] {
        let Links {
            parent,
            prev,
            next,
            first,
            last,
        } = self.model.links(h);
        [
            self.idl(parent),
            self.idl(prev),
            self.idl(next),
            self.idl(first),
            self.idl(last),
        ]
    }

    pub fn actual_links(arena: &Arena<P>, id: NodeId) -> [Option<NodeId>; 5] {
        let n = &arena[id];
        [
            n.parent(),
            n.previous_sibling(),
            n.next_sibling(),
            n.first_child(),
            n.last_child(),
        ]
    }

    /// compares liveness of every slot, count, and links + payload of every live node
    pub fn compare_with_model(&self, op: &Op, out: &mut Vec<Finding>) {
        let m = &self.model;
        let kind = op.kind_name();
        let byop = by_op_props(op);
        let r = guarded(|| {
            let mut out: Vec<Finding> = Vec::new();
            if self.arena.count() != m.slot_count() {
                let mut props = byop.to_vec();
                if matches!(op, Op::New | Op::AppendValue(_)) && !props.contains(&"C07") {
                    props.push("C07");
                }
                out.push(Finding::new(
                    &props,
                    format!("model/{}/count", kind),
                    format!(
                        "count() = {} but {} slots were issued",
                        self.arena.count(),
                        m.slot_count()
                    ),
                ));
                return out;
            }
            let slice = self.arena.as_slice();
            for (slot, cur) in m.slot_cur.iter().enumerate() {
                let live = cur.map_or(false, |h| m.is_live(h));
                if slice[slot].is_removed() == live {
                    let mut props = byop.to_vec();
                    if matches!(op, Op::New | Op::AppendValue(_)) && !props.contains(&"C07") {
                        props.push("C07");
                    }
                    // a node that was never removed lost its payload / a removed one kept it (C08);
                    // the id of the node no longer tells the truth about its removal (C06)
                    for extra in ["C08", "C06"] {
                        if !props.contains(&extra) {
                            props.push(extra);
                        }
                    }
                    out.push(Finding::new(
                        &props,
                        format!("model/{}/liveness", kind),
                        format!(
                            "slot {} (handle {:?}): Node::is_removed() = {}, model live = {}",
                            slot + 1,
                            cur,
                            slice[slot].is_removed(),
                            live
                        ),
                    ));
                    return out;
                }
            }
            const NAMES: [&str; 5] = [
                "parent",
                "previous_sibling",
                "next_sibling",
                "first_child",
                "last_child",
            ];
            for h in m.epoch_handles() {
                if !m.is_live(h) {
                    continue;
                }
                let id = m.nodes[h].id;
                let exp = self.expected_links(h);
                let act = Self::actual_links(&self.arena, id);
                for k in 0..5 {
                    if exp[k] != act[k] {
                        let mut props = byop.to_vec();
                        if let Some(nh) = self.new_handle_of(op) {
                            // stale links on the freshly (re)issued node itself
                            if nh == h && m.recycles[m.nodes[h].slot] > 0 {
                                props.push("C12");
                            }
                        }
                        out.push(Finding::new(
                            &props,
                            format!("model/{}/link-{}", kind, NAMES[k]),
                            format!(
                                "node {} (slot {}): {} is {:?}, documented result is {:?} (handle {:?})",
                                h,
                                m.nodes[h].slot + 1,
                                NAMES[k],
                                act[k].map(usize::from),
                                exp[k].map(usize::from),
                                match k {
                                    0 => m.links(h).parent,
                                    1 => m.links(h).prev,
                                    2 => m.links(h).next,
                                    3 => m.links(h).first,
                                    _ => m.links(h).last,
                                }
                            ),
                        ));
                        return out;
                    }
                }
                let p = match guarded(|| {
                    let p = self.arena[id].get();
                    (p.tid(), p.val())
                }) {
                    Ok(p) => p,
                    Err(msg) => {
                        let mut props = vec!["C08"];
                        for b in byop {
                            if !props.contains(b) {
                                props.push(b);
                            }
                        }
                        out.push(Finding::new(
                            &props,
                            format!("model/{}/payload-read-panic", kind),
                            format!("node {} (slot {}) is live but reading its payload panicked: {}", h, m.nodes[h].slot + 1, msg),
                        ));
                        return out;
                    }
                };
                struct Pv(u64, u64);
                impl Pv {
                    fn tid(&self) -> u64 {
                        self.0
                    }
                    fn val(&self) -> u64 {
                        self.1
                    }
                }
                let p = Pv(p.0, p.1);
                if p.tid() != m.nodes[h].tid || p.val() != m.nodes[h].val {
                    let mut props = vec!["C08"];
                    for b in byop {
                        if !props.contains(b) {
                            props.push(b);
                        }
                    }
                    out.push(Finding::new(
                        &props,
                        format!("model/{}/payload", kind),
                        format!(
                            "node {} (slot {}): payload is (tid {}, val {}), last stored (tid {}, val {})",
                            h,
                            m.nodes[h].slot + 1,
                            p.tid(),
                            p.val(),
                            m.nodes[h].tid,
                            m.nodes[h].val
                        ),
                    ));
                    return out;
                }
            }
            out
        });
        match r {
            Ok(mut fs) => out.append(&mut fs),
            Err(p) => out.push(Finding::new(
                byop,
                format!("model/{}/accessor-panic", kind),
                format!("reading links/payload of live nodes panicked: {}", p),
            )),
        }
    }

    fn new_handle_of(&self, op: &Op) -> Option<H> {
        if matches!(op, Op::New | Op::AppendValue(_)) {
            Some(self.model.nodes.len() - 1)
        } else {
            None
        }
    }

    /// Executes `op`; never panics because of the library.
    pub fn step(&mut self, op: &Op) -> StepInfo<P> {
        let snapshot = self.arena.clone();
        let pre_model = self.model.clone();
        let mut findings: Vec<Finding> = Vec::new();
        let kind = op.kind_name();

        let (rel, why) = match op {
            Op::Ins { t, x, .. } => (classify(&self.model, *t, *x), self.model.why_impossible(*t, *x)),
            Op::AppendValue(p) => {
                let removed = !self.model.is_live(*p);
                (
                    if removed { Rel::TRemoved } else { Rel::NA },
                    Why {
                        same: false,
                        removed,
                        ancestor: false,
                    },
                )
            }
            _ => (Rel::NA, Why::default()),
        };
        let expect_refusal = why.impossible();

        let tid = if op_makes_payload(op) {
            self.model.fresh_tid()
        } else {
            0
        };
        let outcome = do_call(&mut self.arena, &self.model, op, tid);
        self.steps += 1;

        let refused = matches!(
            outcome,
            Outcome::Panic(_) | Outcome::Ret(Ret::Res(Err(_)))
        );
        let mut diverged = false;
        let removed_arg = why.removed;
        let refusal_props: &[&'static str] = match op {
            Op::AppendValue(_) => &["C12"],
            _ if removed_arg => &["C05", "C12"],
            _ => &["C05"],
        };

        // ---- G1: outcome against the documented outcome
        match (&outcome, op) {
            (Outcome::Panic(msg), Op::Ins { checked: true, .. }) => {
                diverged = true;
                findings.push(Finding::new(
                    refusal_props,
                    format!("outcome/{}/{:?}/panic", kind, rel),
                    format!(
                        "checked insert panicked instead of returning (request {}): {}",
                        if expect_refusal { "impossible" } else { "possible" },
                        msg
                    ),
                ));
            }
            (Outcome::Panic(msg), _) if !expect_refusal => {
                diverged = true;
                let mut props: Vec<&'static str> = vec!["C05"];
                if matches!(op, Op::Ins { .. } | Op::AppendValue(_)) {
                    // a possible insert (incl. re-insert in place) must succeed; append_value(v) must do
                    // what new_node(v) + append does, which succeeds
                    props.push("C03");
                }
                findings.push(Finding::new(
                    &props,
                    format!("outcome/{}/{:?}/panic-on-valid-call", kind, rel),
                    format!("valid call panicked: {}", msg),
                ));
            }
            (Outcome::Ret(Ret::Res(Err(e))), _) if !expect_refusal => {
                diverged = true;
                findings.push(Finding::new(
                    &["C05", "C03"],
                    format!("outcome/{}/{:?}/err-on-possible", kind, rel),
                    format!("possible request was rejected with {:?}", e),
                ));
            }
            (Outcome::Ret(Ret::Res(Err(e))), Op::Ins { kind: ikind, .. }) => {
                let name = format!("{:?}", e);
                // a variant that names an entry point must name the one that was called
                let called = match ikind {
                    InsKind::Append => "Append",
                    InsKind::Prepend => "Prepend",
                    InsKind::After => "InsertAfter",
                    InsKind::Before => "InsertBefore",
                };
                let names_other = ["Append", "Prepend", "InsertAfter", "InsertBefore"].iter().any(|p| *p != called && name.starts_with(p));
                if names_other {
                    findings.push(Finding::new(
                        &["C05"],
                        format!("outcome/{}/{:?}/reason-of-another-entry-point", kind, rel),
                        format!("{} rejected the request with {}, the reason of a different entry point", kind, name),
                    ));
                }
                if reason_applies(&name, why) == Some(false) {
                    findings.push(Finding::new(
                        &["C05"],
                        format!("outcome/{}/{:?}/wrong-reason", kind, rel),
                        format!("rejected with {} but that reason does not apply ({:?})", name, why),
                    ));
                }
            }
            (Outcome::Ret(_), _) if expect_refusal => {
                diverged = true;
                findings.push(Finding::new(
                    refusal_props,
                    format!("outcome/{}/{:?}/accepted-impossible", kind, rel),
                    format!(
                        "impossible request ({:?}) was accepted: returned {}",
                        why,
                        outcome.text()
                    ),
                ));
            }
            _ => {}
        }

        let changed = self.arena != snapshot;

        // ---- atomicity of refusals
        if refused && changed {
            let mut props = refusal_props.to_vec();
            if !expect_refusal && !props.contains(&"C05") {
                props.push("C05");
            }
            diverged = true;
            findings.push(Finding::new(
                &props,
                format!("outcome/{}/{:?}/refusal-not-atomic", kind, rel),
                format!("call refused ({}) but the arena differs from the snapshot taken before it", outcome.text()),
            ));
        }

        // ---- model update
        let mut new_h = None;
        if !diverged && !refused {
            match (op, &outcome) {
                (Op::New, Outcome::Ret(Ret::Id(id))) => {
                    let slot = usize::from(*id) - 1;
                    new_h = Some(self.model.add(*id, slot, tid));
                }
                (Op::AppendValue(p), Outcome::Ret(Ret::Id(id))) => {
                    let slot = usize::from(*id) - 1;
                    let h = self.model.add(*id, slot, tid);
                    self.model.insert(InsKind::Append, *p, h);
                    new_h = Some(h);
                }
                (Op::Ins { kind, t, x, .. }, _) => self.model.insert(*kind, *t, *x),
                (Op::Detach(x), _) => self.model.detach(*x),
                (Op::Remove(x), _) => self.model.remove(*x),
                (Op::RemoveSubtree(x), _) => {
                    self.model.remove_subtree(*x);
                }
                (Op::Write(x, v), _) => self.model.nodes[*x].val = *v,
                (Op::Replace(x), _) => {
                    self.model.nodes[*x].tid = tid;
                    self.model.nodes[*x].val = init_val(tid);
                }
                (Op::IterMutAdd(k), _) => {
                    for h in self.model.epoch_handles() {
                        if self.model.is_live(h) {
                            let v = self.model.nodes[h].val;
                            self.model.nodes[h].val = v.wrapping_add(*k);
                        }
                    }
                }
                (Op::Clear, _) => {
                    self.model.clear();
                    self.issued.clear();
                }
                (Op::Reserve(_), _) => {}
                _ => {
                    diverged = true;
                    findings.push(Finding::new(
                        &["C05"],
                        format!("outcome/{}/unexpected-return-shape", kind),
                        format!("unexpected outcome {}", outcome.text()),
                    ));
                }
            }
        }

        // ---- G2 + G4: post-state against the model
        if !diverged {
            let mut fs = Vec::new();
            self.compare_with_model(op, &mut fs);
            if !fs.is_empty() {
                diverged = true;
                findings.append(&mut fs);
            }
        }

        StepInfo {
            op: op.clone(),
            outcome,
            rel,
            why,
            snapshot,
            pre_model,
            new_h,
            refused,
            changed,
            diverged,
            findings,
        }
    }

    /// digest of the observable structure: liveness + five links of every slot
    pub fn structure_digest(&self, d: &mut crate::rng::Digest) {
        let r = guarded(|| {
            let mut v: Vec<u64> = Vec::new();
            for n in self.arena.iter() {
                v.push(n.is_removed() as u64);
                for l in [
                    n.parent(),
                    n.previous_sibling(),
                    n.next_sibling(),
                    n.first_child(),
                    n.last_child(),
                ] {
                    v.push(l.map_or(0, |i| usize::from(i) as u64));
                }
            }
            v
        });
        match r {
            Ok(v) => {
                for x in v {
                    d.u(x)
                }
            }
            Err(_) => d.u(0xBAD),
        }
    }
}

impl<P: Payload> Default for State<P> {
    fn default() -> Self {
        Self::new()
    }
}
