//! Executable reference model of the ordered forest.
//!
//! Deliberately *not* a doubly linked structure: every node belongs to exactly
//! one sibling list; a node's children are the list it owns; parentless nodes
//! live in owner-less lists (a singleton for a fresh/detached node, longer for
//! top-level chains built with insert_before/insert_after).  The expected five
//! links of a node are *derived* from list membership.  The model never
//! predicts ids: it adopts whatever id the library returned and only tracks
//! which storage slots are available.

use indextree::NodeId;
use std::collections::BTreeSet;

/// node handle: index of creation in this run (never reused)
pub type H = usize;

#[derive(Clone, Copy, Debug, PartialEq, Eq)]
pub enum St {
    Live,
    Removed,
    /// forgotten by `Arena::clear`
    Gone,
}

#[derive(Clone, Debug)]
pub struct MNode {
    pub id: NodeId,
    pub slot: usize,
    pub st: St,
    pub list: usize,
    pub kids: usize,
    /// token (payload identity) currently stored in the node
    pub tid: u64,
    /// payload value last stored
    pub val: u64,
}

#[derive(Clone, Debug, Default)]
pub struct List {
    pub owner: Option<H>,
    pub items: Vec<H>,
}

#[derive(Clone, Copy, Debug, PartialEq, Eq, Default)]
pub struct Links {
    pub parent: Option<H>,
    pub prev: Option<H>,
    pub next: Option<H>,
    pub first: Option<H>,
    pub last: Option<H>,
}

#[derive(Clone, Copy, Debug, PartialEq, Eq, Hash)]
pub enum InsKind {
    Append,
    Prepend,
    After,
    Before,
}

pub const INS_KINDS: [InsKind; 4] = [
    InsKind::Append,
    InsKind::Prepend,
    InsKind::After,
    InsKind::Before,
];

impl InsKind {
    pub fn name(self) -> &'static str {
        match self {
            InsKind::Append => "append",
            InsKind::Prepend => "prepend",
            InsKind::After => "insert_after",
            InsKind::Before => "insert_before",
        }
    }
}

/// Why an insert request is impossible (all that apply).
#[derive(Clone, Copy, Debug, PartialEq, Eq, Default)]
pub struct Why {
    pub same: bool,
    pub removed: bool,
    pub ancestor: bool,
}

impl Why {
    pub fn impossible(self) -> bool {
        self.same || self.removed || self.ancestor
    }
}

#[derive(Clone, Debug, Default)]
pub struct Model {
    pub nodes: Vec<MNode>,
    pub lists: Vec<List>,
    /// handle most recently issued for each storage slot (since last clear)
    pub slot_cur: Vec<Option<H>>,
    /// how many times each slot has been re-issued (since last clear)
    pub recycles: Vec<u32>,
    /// slots that are removed and have not been re-issued
    pub avail: BTreeSet<usize>,
    /// handles issued since the last clear
    pub epoch_start: H,
    pub next_tid: u64,
}

impl Model {
    pub fn new() -> Model {
        Model::default()
    }

    pub fn slot_count(&self) -> usize {
        self.slot_cur.len()
    }

    pub fn is_live(&self, h: H) -> bool {
        self.nodes[h].st == St::Live
    }

    /// removed and its slot has not been handed out again
    pub fn is_removed_unrecycled(&self, h: H) -> bool {
        let n = &self.nodes[h];
        n.st == St::Removed && self.slot_cur[n.slot] == Some(h)
    }

    pub fn live_handles(&self) -> Vec<H> {
        (self.epoch_start..self.nodes.len())
            .filter(|h| self.is_live(*h))
            .collect()
    }

    pub fn removed_unrecycled_handles(&self) -> Vec<H> {
        (self.epoch_start..self.nodes.len())
            .filter(|h| self.is_removed_unrecycled(*h))
            .collect()
    }

    /// all handles of the current epoch (live, removed, recycled-over)
    pub fn epoch_handles(&self) -> std::ops::Range<H> {
        self.epoch_start..self.nodes.len()
    }

    pub fn live_count(&self) -> usize {
        (self.epoch_start..self.nodes.len())
            .filter(|h| self.is_live(*h))
            .count()
    }

    pub fn fresh_tid(&mut self) -> u64 {
        let t = self.next_tid;
        self.next_tid += 1;
        t
    }

    // ---------------------------------------------------------------- queries

    pub fn parent(&self, h: H) -> Option<H> {
        self.lists[self.nodes[h].list].owner
    }

    pub fn children(&self, h: H) -> &[H] {
        &self.lists[self.nodes[h].kids].items
    }

    pub fn pos(&self, h: H) -> (usize, usize) {
        let l = self.nodes[h].list;
        let i = self.lists[l]
            .items
            .iter()
            .position(|x| *x == h)
            .expect("model: node not in its list");
        (l, i)
    }

    /// the sibling list (including h) h belongs to
    pub fn siblings(&self, h: H) -> &[H] {
        &self.lists[self.nodes[h].list].items
    }

    pub fn links(&self, h: H) -> Links {
        let (l, i) = self.pos(h);
        let items = &self.lists[l].items;
        let kids = &self.lists[self.nodes[h].kids].items;
        Links {
            parent: self.lists[l].owner,
            prev: if i > 0 { Some(items[i - 1]) } else { None },
            next: items.get(i + 1).copied(),
            first: kids.first().copied(),
            last: kids.last().copied(),
        }
    }

    /// is `a` a proper ancestor of `n`?
    pub fn is_ancestor(&self, a: H, n: H) -> bool {
        let mut cur = self.parent(n);
        while let Some(p) = cur {
            if p == a {
                return true;
            }
            cur = self.parent(p);
        }
        false
    }

    pub fn depth(&self, h: H) -> usize {
        let mut d = 0;
        let mut cur = self.parent(h);
        while let Some(p) = cur {
            d += 1;
            cur = self.parent(p);
        }
        d
    }

    pub fn root_of(&self, h: H) -> H {
        let mut cur = h;
        while let Some(p) = self.parent(cur) {
            cur = p;
        }
        cur
    }

    /// pre-order listing of the subtree of h (h first)
    pub fn subtree(&self, h: H) -> Vec<H> {
        let mut out = Vec::new();
        let mut stack = vec![h];
        while let Some(x) = stack.pop() {
            out.push(x);
            for c in self.children(x).iter().rev() {
                stack.push(*c);
            }
        }
        out
    }

    pub fn why_impossible(&self, t: H, x: H) -> Why {
        let removed = !self.is_live(t) || !self.is_live(x);
        Why {
            same: t == x,
            removed,
            ancestor: !removed && t != x && self.is_ancestor(x, t),
        }
    }

    /// the owner-less lists with their members (top-level chains), in list order
    pub fn top_chains(&self) -> Vec<&List> {
        let mut seen = BTreeSet::new();
        let mut out = Vec::new();
        for h in self.epoch_start..self.nodes.len() {
            if self.is_live(h) {
                let l = self.nodes[h].list;
                if self.lists[l].owner.is_none() && seen.insert(l) {
                    out.push(&self.lists[l]);
                }
            }
        }
        out
    }

    // -------------------------------------------------------------- mutators

    fn new_list(&mut self, owner: Option<H>, items: Vec<H>) -> usize {
        self.lists.push(List { owner, items });
        self.lists.len() - 1
    }

    /// register a node the library just created in `slot` with `id`
    pub fn add(&mut self, id: NodeId, slot: usize, tid: u64) -> H {
        let h = self.nodes.len();
        let list = self.new_list(None, vec![h]);
        let kids = self.new_list(Some(h), Vec::new());
        self.nodes.push(MNode {
            id,
            slot,
            st: St::Live,
            list,
            kids,
            tid,
            val: tid.wrapping_mul(1_000_003),
        });
        if slot == self.slot_cur.len() {
            self.slot_cur.push(Some(h));
            self.recycles.push(0);
        } else if slot < self.slot_cur.len() {
            self.slot_cur[slot] = Some(h);
            self.recycles[slot] += 1;
            self.avail.remove(&slot);
        } else {
            // slot beyond the end + 1: keep the model total; the C07 monitor reports it
            while self.slot_cur.len() < slot {
                self.slot_cur.push(None);
                self.recycles.push(0);
            }
            self.slot_cur.push(Some(h));
            self.recycles.push(0);
        }
        h
    }

    fn take_out(&mut self, x: H) {
        let (l, i) = self.pos(x);
        self.lists[l].items.remove(i);
    }

    pub fn detach(&mut self, x: H) {
        self.take_out(x);
        let l = self.new_list(None, vec![x]);
        self.nodes[x].list = l;
    }

    /// caller guarantees the request is possible
    pub fn insert(&mut self, kind: InsKind, t: H, x: H) {
        self.take_out(x);
        match kind {
            InsKind::Append => {
                let k = self.nodes[t].kids;
                self.lists[k].items.push(x);
                self.nodes[x].list = k;
            }
            InsKind::Prepend => {
                let k = self.nodes[t].kids;
                self.lists[k].items.insert(0, x);
                self.nodes[x].list = k;
            }
            InsKind::After => {
                let (l, i) = self.pos(t);
                self.lists[l].items.insert(i + 1, x);
                self.nodes[x].list = l;
            }
            InsKind::Before => {
                let (l, i) = self.pos(t);
                self.lists[l].items.insert(i, x);
                self.nodes[x].list = l;
            }
        }
    }

    fn mark_removed(&mut self, x: H) {
        self.nodes[x].st = St::Removed;
        self.avail.insert(self.nodes[x].slot);
    }

    /// remove x; its children take its place
    pub fn remove(&mut self, x: H) {
        let (l, i) = self.pos(x);
        let k = self.nodes[x].kids;
        let kids: Vec<H> = std::mem::take(&mut self.lists[k].items);
        for c in &kids {
            self.nodes[*c].list = l;
        }
        self.lists[l].items.splice(i..=i, kids);
        self.mark_removed(x);
    }

    /// remove x and all descendants; returns them in pre-order
    pub fn remove_subtree(&mut self, x: H) -> Vec<H> {
        let all = self.subtree(x);
        self.take_out(x);
        for y in &all {
            self.mark_removed(*y);
        }
        all
    }

    pub fn clear(&mut self) {
        for h in self.epoch_start..self.nodes.len() {
            self.nodes[h].st = St::Gone;
        }
        self.epoch_start = self.nodes.len();
        self.slot_cur.clear();
        self.recycles.clear();
        self.avail.clear();
    }

    // ------------------------------------------------ canonical shape hashing

    /// structural hash of the subtree rooted at h (ordered)
    pub fn tree_hash(&self, h: H) -> u64 {
        let mut acc = 0x51ED_270B_1F2A_3C47u64;
        for c in self.children(h) {
            acc = crate::rng::mix2(acc, self.tree_hash(*c));
        }
        crate::rng::mix(acc ^ 0x7)
    }

    fn chain_hash(&self, l: &List) -> u64 {
        let mut acc = 0xC0FF_EE00_DEAD_BEEFu64;
        for r in &l.items {
            acc = crate::rng::mix2(acc, self.tree_hash(*r));
        }
        acc
    }

    /// hash of the whole forest, independent of slot numbers and of the order
    /// in which the top-level chains were created
    pub fn forest_hash(&self) -> u64 {
        let mut hs: Vec<u64> = self.top_chains().iter().map(|l| self.chain_hash(l)).collect();
        hs.sort_unstable();
        let mut acc = hs.len() as u64;
        for h in hs {
            acc = crate::rng::mix2(acc, h);
        }
        acc
    }

    /// canonical position of a live node: hash of its chain + index path
    pub fn pos_hash(&self, h: H) -> u64 {
        if !self.is_live(h) {
            return 0xDEAD;
        }
        let mut path = Vec::new();
        let mut cur = h;
        loop {
            let (_, i) = self.pos(cur);
            path.push(i as u64);
            match self.parent(cur) {
                Some(p) => cur = p,
                None => break,
            }
        }
        let l = &self.lists[self.nodes[cur].list];
        let mut acc = self.chain_hash(l);
        for p in path.iter().rev() {
            acc = crate::rng::mix2(acc, *p);
        }
        acc
    }

    /// hash of everything an arena's `==` must be able to tell apart at the level of the model:
    /// which slots are live, the five links and the payload of every live node
    pub fn state_fingerprint(&self) -> u64 {
        let mut acc = self.slot_cur.len() as u64;
        for (slot, c) in self.slot_cur.iter().enumerate() {
            let live = c.map_or(false, |h| self.is_live(h));
            acc = crate::rng::mix2(acc, (slot as u64) << 1 | live as u64);
            if let (true, Some(h)) = (live, *c) {
                let l = self.links(h);
                for x in [l.parent, l.prev, l.next, l.first, l.last] {
                    acc = crate::rng::mix2(acc, x.map_or(u64::MAX, |y| self.nodes[y].slot as u64));
                }
                acc = crate::rng::mix2(acc, self.nodes[h].tid);
                acc = crate::rng::mix2(acc, self.nodes[h].val);
            }
        }
        acc
    }

    /// compact textual rendering of the forest, e.g. `[0(1 2(3))] [4 5]`
    pub fn render(&self) -> String {
        fn rec(m: &Model, h: H, out: &mut String) {
            out.push_str(&h.to_string());
            let ks = m.children(h);
            if !ks.is_empty() {
                out.push('(');
                for (i, c) in ks.iter().enumerate() {
                    if i > 0 {
                        out.push(' ');
                    }
                    rec(m, *c, out);
                }
                out.push(')');
            }
        }
        let mut out = String::new();
        for l in self.top_chains() {
            out.push('[');
            for (i, r) in l.items.iter().enumerate() {
                if i > 0 {
                    out.push(' ');
                }
                rec(self, *r, &mut out);
            }
            out.push_str("] ");
        }
        let rem = self.removed_unrecycled_handles();
        if !rem.is_empty() {
            out.push_str(&format!("removed{:?}", rem));
        }
        out.trim_end().to_string()
    }
}
