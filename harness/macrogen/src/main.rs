#![allow(unused_parens, unused_braces, clippy::all)]
//! E3: executes generated `tree!` programs (W5) under a monitor.
//!
//! The file named by the compile-time environment variable IXV_GENERATED holds
//! one function per literal plus `run_all`; it is written by /verif/lib/macrogen.py.

use indextree::{Arena, Node, NodeId};
use std::cell::RefCell;

#[allow(unused_imports)]
use indextree::macros::tree;

/// heap-owning payload so that a leaked / doubly dropped root value is visible to Miri / ASan
#[derive(Clone, PartialEq, Eq, Debug)]
pub struct Pay {
    pub k: i64,
    pub s: String,
}

pub type Log = RefCell<Vec<i64>>;

pub const ARENA_MARK: i64 = -1;
pub const ROOT_ID_MARK: i64 = -2;

/// node expression with a side effect: logs k, returns the payload k
pub fn ev(log: &Log, k: i64) -> Pay {
    log.borrow_mut().push(k);
    Pay { k, s: format!("payload-{}", k) }
}

/// A node expression that keeps a guard (an exclusive borrow of the log) alive as a TEMPORARY of the
/// expression itself: `held(log).ev(k)`.  The temporary dies at the end of the statement the macro puts the
/// expression in - if that statement also evaluates another written expression, the second borrow fails.
pub struct Held<'a>(std::cell::RefMut<'a, Vec<i64>>);

pub fn held(log: &Log) -> Held<'_> {
    Held(log.borrow_mut())
}

impl Held<'_> {
    pub fn ev(&mut self, k: i64) -> Pay {
        self.0.push(k);
        Pay { k, s: format!("payload-{}", k) }
    }
}

/// root expression of the NodeId form: logs the marker, returns the id
pub fn rid(log: &Log, id: NodeId) -> NodeId {
    log.borrow_mut().push(ROOT_ID_MARK);
    id
}

pub struct Env {
    pub arena: Arena<Pay>,
    pub log: Log,
    pub pre: Arena<Pay>,
    /// existing node offered as root in the NodeId form (with its existing children payloads)
    pub anchor: NodeId,
    pub anchor_kids: Vec<i64>,
    pub free_before: Vec<usize>,
}

#[derive(Default)]
pub struct Harness {
    pub literals: u64,
    pub nodes: u64,
    pub findings: Vec<(usize, String, String)>,
    pub recycled_roots: u64,
    pub new_root_form: u64,
    pub id_root_form: u64,
    pub max_depth: usize,
    pub max_width: usize,
    pub shapes: std::collections::HashSet<String>,
}

fn splitmix(x: &mut u64) -> u64 {
    *x = x.wrapping_add(0x9E37_79B9_7F4A_7C15);
    let mut z = *x;
    z = (z ^ (z >> 30)).wrapping_mul(0xBF58_476D_1CE4_E5B9);
    z = (z ^ (z >> 27)).wrapping_mul(0x94D0_49BB_1331_11EB);
    z ^ (z >> 31)
}

fn kids_raw(a: &Arena<Pay>, id: NodeId) -> Vec<NodeId> {
    // raw links only (first_child / next_sibling), bounded
    let mut out = Vec::new();
    let mut cur = a[id].first_child();
    while let Some(c) = cur {
        out.push(c);
        if out.len() > a.count() {
            break;
        }
        cur = a[c].next_sibling();
    }
    out
}

fn render(a: &Arena<Pay>, id: NodeId, depth: usize, stats: &mut (usize, usize), budget: &mut usize) -> String {
    let mut s = a[id].get().k.to_string();
    stats.0 = stats.0.max(depth);
    if *budget == 0 {
        return s;
    }
    *budget -= 1;
    let ks = kids_raw(a, id);
    stats.1 = stats.1.max(ks.len());
    if !ks.is_empty() {
        s.push('(');
        for (i, c) in ks.iter().enumerate() {
            if i > 0 {
                s.push(' ');
            }
            // parent link of every child must name this node
            if a[*c].parent() != Some(id) {
                s.push_str("!parent!");
            }
            s.push_str(&render(a, *c, depth + 1, stats, budget));
        }
        s.push(')');
    }
    s
}

impl Harness {
    /// arena that already contains unrelated trees, free slots, and an anchor node with 0-3 children
    pub fn begin(&mut self, i: usize, anchor_children: usize, free_slots: usize, anchor_inner: bool) -> Env {
        let mut seed = 0x1234_5678_9ABC_DEF0u64 ^ (i as u64) << 17;
        let mut a: Arena<Pay> = Arena::new();
        let log: Log = RefCell::new(Vec::new());
        let mk = |k: i64| Pay { k, s: format!("pre-{}", k) };
        // unrelated tree
        let u = a.new_node(mk(9000));
        let u1 = u.append_value(mk(9001), &mut a);
        u.append_value(mk(9002), &mut a);
        u1.append_value(mk(9003), &mut a);
        // nodes to be freed, interleaved
        let mut doomed = Vec::new();
        for j in 0..free_slots {
            let d = if splitmix(&mut seed) % 2 == 0 { a.new_node(mk(9100 + j as i64)) } else { u1.append_value(mk(9100 + j as i64), &mut a) };
            doomed.push(d);
        }
        let anchor = if anchor_inner { u.append_value(mk(8000), &mut a) } else { a.new_node(mk(8000)) };
        if anchor_inner {
            u.append_value(mk(9004), &mut a); // a later sibling of the anchor
        }
        let mut anchor_kids = Vec::new();
        for j in 0..anchor_children {
            let k = 8001 + j as i64;
            let c = anchor.append_value(mk(k), &mut a);
            anchor_kids.push(k);
            if j == 0 && splitmix(&mut seed) % 2 == 0 {
                c.append_value(mk(8100), &mut a);
            }
        }
        let mut free_before = Vec::new();
        for d in doomed {
            free_before.push(usize::from(d) - 1);
            d.remove(&mut a);
        }
        let pre = a.clone();
        Env { arena: a, log, pre, anchor, anchor_kids, free_before }
    }

    fn fail(&mut self, i: usize, sig: &str, detail: String) {
        if self.findings.len() < 20 {
            self.findings.push((i, sig.to_string(), detail));
        }
    }

    /// `expected`: rendering of the written literal (root included), `nexpr`: number of node
    /// expressions written (root included for the value form), `id_form`: root was given as NodeId
    pub fn check(&mut self, i: usize, env: Env, root: NodeId, expected: &str, nexpr: usize, id_form: bool) {
        self.literals += 1;
        self.nodes += nexpr as u64;
        self.shapes.insert(expected.to_string());
        let Env { arena, log, pre, anchor, anchor_kids, free_before } = env;
        let log = log.into_inner();
        // ---- allocation facts (C07), judged first and independently of everything else: free slots are used up
        // before the arena grows, every written expression gives one more live node, no existing node changes
        {
            let live = |a: &Arena<Pay>| a.iter().filter(|n| !n.is_removed()).count();
            let exp_count = pre.count() + nexpr.saturating_sub(free_before.len());
            if arena.count() != exp_count {
                self.fail(i, "alloc/count", format!("{} expressions written with {} free slots: count() went {} -> {}, expected {}", nexpr, free_before.len(), pre.count(), arena.count(), exp_count));
            } else if live(&arena) != live(&pre) + nexpr {
                self.fail(i, "alloc/live-count", format!("{} live nodes before, {} after, {} expressions written", live(&pre), live(&arena), nexpr));
            } else {
                let (ps, now) = (pre.as_slice(), arena.as_slice());
                let anchor_slot = usize::from(anchor) - 1;
                let anchor_last = pre[anchor].last_child().map(|c| usize::from(c) - 1);
                for j in 0..ps.len().min(now.len()) {
                    if ps[j].is_removed() || (id_form && (j == anchor_slot || Some(j) == anchor_last)) {
                        continue;
                    }
                    if ps[j] != now[j] {
                        self.fail(i, "alloc/existing-node-changed", format!("the node at position {} existed before the literal and is not its root; it changed", j + 1));
                        break;
                    }
                }
            }
        }
        // ---- evaluation order / count
        let mut exp_log: Vec<i64> = vec![ARENA_MARK];
        if id_form {
            exp_log.push(ROOT_ID_MARK);
            exp_log.extend(1..=(nexpr as i64));
        } else {
            exp_log.extend(0..(nexpr as i64));
        }
        if log != exp_log {
            self.fail(i, "evaluation-order", format!("side-effect log {:?}, written order {:?}", log, exp_log));
            return;
        }
        // ---- returned root
        if id_form {
            self.id_root_form += 1;
            if root != anchor {
                self.fail(i, "root-id-not-returned", format!("tree! returned {:?}, the given root id is {:?}", root, anchor));
                return;
            }
        } else {
            self.new_root_form += 1;
            let slot = usize::from(root) - 1;
            let ok_slot = free_before.contains(&slot) || (free_before.is_empty() && slot == pre.count());
            if !ok_slot {
                self.fail(i, "root-slot", format!("new root placed at position {}, free slots were {:?}, count was {}", slot + 1, free_before, pre.count()));
                return;
            }
            if free_before.contains(&slot) {
                self.recycled_roots += 1;
            }
            let n = &arena[root];
            if n.is_removed() || n.get().k != 0 {
                self.fail(i, "root-payload", format!("returned root holds payload {:?}", if n.is_removed() { None } else { Some(n.get().k) }));
                return;
            }
            if n.parent().is_some() || n.previous_sibling().is_some() || n.next_sibling().is_some() {
                self.fail(i, "root-not-detached", "a root created from a value has a parent or siblings".into());
                return;
            }
        }
        // ---- shape, level by level
        let mut stats = (0usize, 0usize);
        let mut budget = arena.count() + 1;
        let mut got = render(&arena, root, 0, &mut stats, &mut budget);
        let exp_full = if id_form {
            // pre-existing children (with their own subtrees) come first: compare only the top level list
            // by rendering expected = 8000(<existing kids...> <written kids...>)
            expected.to_string()
        } else {
            expected.to_string()
        };
        if id_form {
            // strip subtrees of pre-existing children from the actual rendering: they are compared
            // against the snapshot below, here only their order matters
            got = render_anchor(&arena, root, &anchor_kids, &mut stats);
        }
        if got != exp_full {
            self.fail(i, "shape", format!("built {} , written {}", got, exp_full));
            return;
        }
        self.max_depth = self.max_depth.max(stats.0);
        self.max_width = self.max_width.max(stats.1);
        // ---- exactly one node per written expression; nothing outside changed
        let live = |a: &Arena<Pay>| a.iter().filter(|n| !n.is_removed()).count();
        let created = if id_form { nexpr } else { nexpr };
        if live(&arena) != live(&pre) + created {
            self.fail(i, "node-count", format!("{} live nodes before, {} after, {} expressions written", live(&pre), live(&arena), created));
            return;
        }
        let ps = pre.as_slice();
        let now = arena.as_slice();
        let anchor_slot = usize::from(anchor) - 1;
        let anchor_last = pre[anchor].last_child().map(|c| usize::from(c) - 1);
        for j in 0..ps.len() {
            if ps[j].is_removed() {
                continue; // may have been recycled
            }
            if id_form && (j == anchor_slot || Some(j) == anchor_last) {
                // only last_child / first_child of the anchor and next_sibling of its former last child may change
                let (a, b): (&Node<Pay>, &Node<Pay>) = (&ps[j], &now[j]);
                if a.get() != b.get() || a.parent() != b.parent() || a.previous_sibling() != b.previous_sibling() || b.is_removed() {
                    self.fail(i, "anchor-changed", format!("slot {} changed beyond the appended children", j + 1));
                    return;
                }
                continue;
            }
            if ps[j] != now[j] {
                self.fail(i, "bystander-changed", format!("pre-existing slot {} changed", j + 1));
                return;
            }
        }
    }
}

fn render_anchor(a: &Arena<Pay>, root: NodeId, existing: &[i64], stats: &mut (usize, usize)) -> String {
    let ks = kids_raw(a, root);
    let mut s = a[root].get().k.to_string();
    stats.1 = stats.1.max(ks.len());
    if !ks.is_empty() {
        s.push('(');
        for (i, c) in ks.iter().enumerate() {
            if i > 0 {
                s.push(' ');
            }
            if a[*c].parent() != Some(root) {
                s.push_str("!parent!");
            }
            if i < existing.len() {
                s.push_str(&a[*c].get().k.to_string());
            } else {
                let mut budget = a.count() + 1;
                s.push_str(&render(a, *c, 1, stats, &mut budget));
            }
        }
        s.push(')');
    }
    s
}

/// An arena whose payload type is `NodeId`: every written child expression must still create a
/// node (only the ROOT position distinguishes an existing NodeId from a value).
fn nodeid_payload_battery(h: &mut Harness) {
    let r = std::panic::catch_unwind(|| -> Result<(), String> {
        let mut other: Arena<u8> = Arena::new();
        let ids: Vec<NodeId> = (0..7u8).map(|i| other.new_node(i)).collect();
        for round in 0..3 {
            let mut a: Arena<NodeId> = Arena::new();
            // some unrelated nodes so that foreign indices hit something
            for i in 0..round {
                a.new_node(ids[6 - i]);
            }
            let anchor = a.new_node(ids[0]);
            let pre = a.new_node(ids[1]);
            anchor.append(pre, &mut a);
            let before = a.count();
            let r = match round {
                0 => tree!(&mut a, anchor => { ids[2], ids[3] => { ids[4] }, ids[5] }),
                1 => tree!(&mut a, anchor => { ids[2] => { ids[3] => { ids[4] } }, ids[5], }),
                _ => tree!(&mut a, anchor => { ids[2], ids[3], ids[4], ids[5] => {} }),
            };
            if r != anchor {
                return Err(format!("round {}: returned {:?}, expected the given root {:?}", round, r, anchor));
            }
            if a.count() != before + 4 {
                return Err(format!("round {}: 4 expressions written, count() went {} -> {}", round, before, a.count()));
            }
            let kids: Vec<NodeId> = anchor.children(&a).map(|c| *a[c].get()).collect();
            let exp: Vec<NodeId> = match round {
                0 => vec![ids[1], ids[2], ids[3], ids[5]],
                1 => vec![ids[1], ids[2], ids[5]],
                _ => vec![ids[1], ids[2], ids[3], ids[4], ids[5]],
            };
            if kids != exp {
                return Err(format!("round {}: payloads of the root's children are {:?}, written {:?}", round, kids, exp));
            }
            let all: Vec<NodeId> = anchor.descendants(&a).skip(1).map(|c| *a[c].get()).collect();
            if all != vec![ids[1], ids[2], ids[3], ids[4], ids[5]] {
                return Err(format!("round {}: pre-order payloads {:?}", round, all));
            }
        }
        Ok(())
    });
    h.literals += 3;
    h.nodes += 12;
    match r {
        Ok(Ok(())) => {}
        Ok(Err(e)) => h.findings.push((usize::MAX, "nodeid-payload".into(), e)),
        Err(_) => h.findings.push((usize::MAX, "nodeid-payload-panic".into(), "tree! on an Arena<NodeId> panicked".into())),
    }
}

/// Payload types that merely LOOK like ids (they contain, borrow as, deref to or convert into a `NodeId`):
/// written in root position they are values - a new root must be created for them, exactly as for a string.
#[derive(Clone, Copy, PartialEq, Debug)]
struct Tagged {
    id: NodeId,
    tag: u8,
}
impl std::borrow::Borrow<NodeId> for Tagged {
    fn borrow(&self) -> &NodeId {
        &self.id
    }
}
impl AsRef<NodeId> for Tagged {
    fn as_ref(&self) -> &NodeId {
        &self.id
    }
}
impl std::ops::Deref for Tagged {
    type Target = NodeId;
    fn deref(&self) -> &NodeId {
        &self.id
    }
}
impl From<Tagged> for NodeId {
    fn from(t: Tagged) -> NodeId {
        t.id
    }
}

fn idlike_payload_battery(h: &mut Harness) {
    macro_rules! one {
        ($name:expr, $ty:ty, $mk:expr) => {{
            let name: &str = $name;
            let r = std::panic::catch_unwind(|| -> Result<(), String> {
                for round in 0..2usize {
                    // ids taken from THIS arena, so that "the node with that id" exists and is somebody else's
                    let mut a: Arena<$ty> = Arena::new();
                    let mut seedarena: Arena<u8> = Arena::new();
                    let foreign: Vec<NodeId> = (0..6u8).map(|i| seedarena.new_node(i)).collect();
                    let mk = $mk;
                    let pre: Vec<NodeId> = (0..4).map(|i| a.new_node(mk(foreign[i]))).collect();
                    pre[0].append(pre[1], &mut a);
                    if round == 1 {
                        pre[3].remove(&mut a);
                    }
                    let before_live = a.iter().filter(|n| !n.is_removed()).count();
                    let snapshot: Vec<(Option<NodeId>, Option<NodeId>)> = pre.iter().take(3).map(|p| (a[*p].first_child(), a[*p].last_child())).collect();
                    // pre[0]'s id is what the written root value carries / borrows as
                    let r = tree!(&mut a, mk(pre[0]) => { mk(pre[1]), mk(pre[2]) => { mk(pre[0]) } });
                    let after_live = a.iter().filter(|n| !n.is_removed()).count();
                    if after_live != before_live + 4 {
                        return Err(format!("{}: 4 expressions written with a value root, live nodes went {} -> {}", name, before_live, after_live));
                    }
                    if pre.iter().take(3).any(|p| *p == r) {
                        return Err(format!("{}: the value written as root was taken for the id of an existing node ({:?})", name, r));
                    }
                    if a[r].parent().is_some() || *a[r].get() != mk(pre[0]) {
                        return Err(format!("{}: the returned root is not a new root node holding the written value", name));
                    }
                    let now: Vec<(Option<NodeId>, Option<NodeId>)> = pre.iter().take(3).map(|p| (a[*p].first_child(), a[*p].last_child())).collect();
                    if now != snapshot {
                        return Err(format!("{}: existing nodes got children from a literal whose root was a value", name));
                    }
                    let kids: Vec<$ty> = r.children(&a).map(|c| a[c].get().clone()).collect();
                    if kids != vec![mk(pre[1]), mk(pre[2])] {
                        return Err(format!("{}: children of the new root hold {:?}", name, kids));
                    }
                    if r.descendants(&a).count() != 4 {
                        return Err(format!("{}: the new tree has {} nodes, 4 written", name, r.descendants(&a).count()));
                    }
                }
                Ok(())
            });
            h.literals += 2;
            h.nodes += 8;
            match r {
                Ok(Ok(())) => {}
                Ok(Err(e)) => h.findings.push((usize::MAX, "idlike-payload".into(), e)),
                Err(_) => h.findings.push((usize::MAX, "idlike-payload-panic".into(), format!("tree! on an arena of {} panicked", name))),
            }
        }};
    }
    one!("Box<NodeId>", Box<NodeId>, |i: NodeId| Box::new(i));
    one!("Tagged (Borrow/AsRef/Deref/Into NodeId)", Tagged, |i: NodeId| Tagged { id: i, tag: 7 });
    one!("(NodeId,)", (NodeId,), |i: NodeId| (i,));
    one!("Option<NodeId>", Option<NodeId>, |i: NodeId| Some(i));
    one!("[NodeId; 1]", [NodeId; 1], |i: NodeId| [i]);
    one!("std::rc::Rc<NodeId>", std::rc::Rc<NodeId>, |i: NodeId| std::rc::Rc::new(i));
    one!("std::num::NonZeroUsize", std::num::NonZeroUsize, |i: NodeId| std::num::NonZeroUsize::from(i));
    // references to ids
    {
        static CELL: std::sync::OnceLock<Vec<NodeId>> = std::sync::OnceLock::new();
        let ids: &'static Vec<NodeId> = CELL.get_or_init(|| {
            let mut a: Arena<u8> = Arena::new();
            (0..8u8).map(|i| a.new_node(i)).collect()
        });
        let r = std::panic::catch_unwind(|| -> Result<(), String> {
            let mut a: Arena<&'static NodeId> = Arena::new();
            let p0 = a.new_node(&ids[0]);
            let p1 = a.new_node(&ids[1]);
            p0.append(p1, &mut a);
            let r = tree!(&mut a, &ids[0] => { &ids[1], &ids[2] });
            if r == p0 || r == p1 || a.count() != 5 || a[r].parent().is_some() || **a[r].get() != ids[0] || p0.children(&a).count() != 1 {
                return Err(format!("&NodeId: a reference written as root value was not given a new root (returned {:?}, count {})", r, a.count()));
            }
            Ok(())
        });
        h.literals += 1;
        h.nodes += 3;
        match r {
            Ok(Ok(())) => {}
            Ok(Err(e)) => h.findings.push((usize::MAX, "idlike-payload".into(), e)),
            Err(_) => h.findings.push((usize::MAX, "idlike-payload-panic".into(), "tree! on an arena of &NodeId panicked".into())),
        }
    }
}

/// A literal whose expansion panics on valid input is an observation about that literal, not the end of the run.
fn guard(h: &mut Harness, i: usize, f: fn(&mut Harness)) {
    let r = std::panic::catch_unwind(std::panic::AssertUnwindSafe(|| f(h)));
    if let Err(p) = r {
        let msg = p.downcast_ref::<String>().cloned().or_else(|| p.downcast_ref::<&str>().map(|s| s.to_string())).unwrap_or_else(|| "(no message)".into());
        h.findings.push((i, "panic".into(), format!("a well-formed literal panicked: {}", msg.chars().take(200).collect::<String>())));
    }
}

include!(env!("IXV_GENERATED"));

fn main() {
    std::panic::set_hook(Box::new(|_| {}));
    let mut h = Harness::default();
    run_all(&mut h);
    nodeid_payload_battery(&mut h);
    idlike_payload_battery(&mut h);
    for (i, sig, detail) in &h.findings {
        println!("FINDING literal={} sig=macro/{} detail={}", if *i == usize::MAX { "nodeid-battery".to_string() } else { i.to_string() }, sig, detail.replace('\n', " "));
    }
    println!(
        "{{\"literals\":{},\"nodes\":{},\"distinct_shapes\":{},\"new_root_form\":{},\"id_root_form\":{},\"roots_in_recycled_slot\":{},\"max_depth\":{},\"max_width\":{},\"findings\":{}}}",
        h.literals,
        h.nodes,
        h.shapes.len(),
        h.new_root_form,
        h.id_root_form,
        h.recycled_roots,
        h.max_depth,
        h.max_width,
        h.findings.len()
    );
    if !h.findings.is_empty() {
        std::process::exit(1);
    }
}
