//! E5: compile-time gate for C18.  The compiler is the observer: these generic
//! functions type-check only if the auto traits hold for EVERY payload type T.
#![cfg_attr(feature = "freeze", feature(freeze))]
#![cfg_attr(not(feature = "std"), no_std)]
#![allow(deprecated, unused_imports)]

use indextree::{
    Ancestors, Arena, Children, Descendants, FollowingSiblings, Node, NodeEdge, NodeError, NodeId, PrecedingSiblings, Predecessors,
    ReverseChildren, ReverseTraverse, Traverse,
};

fn is_send<T: Send>() {}
fn is_sync<T: Sync>() {}

/// Arena<T>, Node<T> are Send whenever T is
pub fn send_whenever_t_is<T: Send>() {
    is_send::<Arena<T>>();
    is_send::<Node<T>>();
}

/// Arena<T>, Node<T> are Sync whenever T is
pub fn sync_whenever_t_is<T: Sync>() {
    is_sync::<Arena<T>>();
    is_sync::<Node<T>>();
    // a shared reference can be handed to another thread
    is_send::<&Arena<T>>();
    is_send::<&Node<T>>();
}

pub fn plain_types() {
    is_send::<NodeId>();
    is_sync::<NodeId>();
}

#[cfg(feature = "freeze")]
mod freeze {
    use super::*;
    use core::marker::Freeze;
    fn is_freeze<T: Freeze>() {}
    /// no inline interior mutability (Cell, atomics, Mutex ...) in any of the types
    pub fn no_shallow_interior_mutability<T: Freeze>() {
        is_freeze::<Arena<T>>();
        is_freeze::<Node<T>>();
        is_freeze::<NodeId>();
        is_freeze::<NodeEdge>();
    }
    pub fn iterators_too<'a, T: Freeze + 'a>() {
        is_freeze::<Ancestors<'a, T>>();
        is_freeze::<Children<'a, T>>();
        is_freeze::<Traverse<'a, T>>();
        is_freeze::<Descendants<'a, T>>();
    }
}

/// par_iter() is available for every shareable payload (T: Sync is all it may ask for) and its items
/// are plain shared references
#[cfg(feature = "par_iter")]
pub fn par_iter_whenever_t_is_sync<T: Sync>(arena: &Arena<T>) -> usize {
    use rayon::prelude::*;
    fn takes_refs<'a, T: Sync + 'a>(it: impl ParallelIterator<Item = &'a Node<T>>) -> usize {
        it.count()
    }
    takes_refs(arena.par_iter())
}
