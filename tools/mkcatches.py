#!/usr/bin/env python3
"""Rewrites section 9 of DESIGN.md from seeded/*/meta.json."""
import glob, json, os
V = os.path.dirname(os.path.dirname(os.path.realpath(__file__)))
rows = []
for d in sorted(glob.glob(os.path.join(V, "seeded", "C??-?"))):
    m = json.load(open(os.path.join(d, "meta.json")))
    det = []
    for c, r in m["checks"].items():
        sig = r["signatures"][0] if r["signatures"] else ""
        det.append("%s %s%s" % (c, r["verdict"], (" (`%s`)" % sig) if sig else ""))
    rows.append("| %s | %s | %s | %s |" % (m["mutant"], m["summary"].replace("|", "/"), m["needs_to_manifest"].replace("|", "/"), "; ".join(det)))
text = """## 9. Seeded changes and which check catches which

Each change below was written by an independent sub-agent that was given only the text of
one property and a scratch worktree (nothing from /verif), asked for a realistic change that
breaks the property, compiles, passes the 45 tests + doc tests, and needs something specific
to manifest. I confirmed each one with `tools/trymutant.sh` (applies the patch to /repo, runs
the repository's suite, runs the demonstration, runs the quick check, reverts /repo). All
%d kept changes are detected by the quick tier of the check of the property they break;
the ones that were first missed, and what was strengthened, are listed in section 8 and in
the `notes`/`meta.json` of the change. `detected` = exit 1 + VIOLATION line.

| change | what it does | needs | quick check result (first signature) |
|---|---|---|---|
%s

Changes that were first missed and led to stronger checks (70 of 251): round 1 (4 of 36) - C07-b,
C08-a, C08-b, C11-b; round 2 (14 of 36) - C02-c, C07-d, C08-c, C08-d, C09-d, C10-c, C10-d, C11-c,
C12-c, C13-d, C14-d, C15-d, C17-c, C18-c; round 3 (11 of 36) - C02-e, C02-f, C04-f, C06-f, C09-f,
C11-f, C12-e, C13-f, C17-f, C18-e, C18-f; round 4 (13 of 36) - C02-h, C03-h, C05-g, C07-h, C08-h,
C13-g, C14-g, C15-g, C15-h, C16-g, C17-g, C17-h, C18-h; round 5 (5 of 36) - C07-j, C09-i, C10-i,
C13-i, C14-j; round 6 (8 of 36) - C10-l, C11-k, C13-l, C15-k, C15-l (the generated program died: inconclusive,
not a detection), C17-k, C17-l, C18-l (for C13-l, C15-k, C17-k, C18-l the additions were written from the
descriptions of the triggers before the first run; that the previous version of the checks misses them was
confirmed afterwards with a checkout of the previous commit of /verif); round 7 (10 of 35) - C07-n, C09-n,
C10-n, C11-m, C13-n, C14-m, C15-m, C17-m, C17-n, C18-m (all ten additions were written from the trigger descriptions
first; each change was then run against a checkout of the previous commit of /verif, which missed it, and against
the new checks, which detect it). A 36th change of round 7, C18-n, is not kept: it does not break C18 as stated
(`seeded/_not_kept/C18-n/WHY.md`), and it exposed a false alarm of my compile-time gate, which was corrected.
What was added for each is in section 8. Release-only changes (C01-d, C03-c, C05-c,
C05-h, C12-i, C13-f) and debug-only ones (C03-h, C03-n, C05-j, C05-m, C06-j, C07-j, C10-f, C11-h, C15-l, C18-l) are caught
because every behavioural check runs a build with and a build without debug assertions. Regression runs
(tools/recheck_all.sh, every kept change against the then current checks): the complete set after round 5; C01-C11
(a-l) and C12 a-e again after the additions of round 6, and C13, C14, C17 (a-l, the checks whose workloads changed
most in round 7) and C18 a/b/e/i/k (the changes the narrowed gate has to catch) again after round 7: all detected;
the re-run of C12 f-l, C15 and C16 after round 6 was cut short for time (the additions since then are new workloads and new laws; nothing was removed except
the iterator `Send`/`Sync` assertions of the C18 gate, which none of the kept C18 changes relied on: their first
signatures are in the table).
""" % (len(rows), "\n".join(rows))
p = os.path.join(V, "DESIGN.md")
s = open(p).read()
a, b = s.index("<!-- SEEDED-TABLE-BEGIN -->"), s.index("<!-- SEEDED-TABLE-END -->")
s = s[:a] + "<!-- SEEDED-TABLE-BEGIN -->\n" + text + s[b:]
open(p, "w").write(s)
print(len(rows), "rows")
