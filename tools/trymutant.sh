#!/bin/bash
# usage: tools/trymutant.sh <mutant-dir containing patch.diff [demo.rs]> <Cxx> [Cyy ...]
# Applies the patch to /repo, confirms the repository's own suite still passes, runs the given checks
# (evidence and replays go to a scratch directory), and ALWAYS reverts /repo afterwards.
set -u
D="$1"; shift
OUT=${TRY_OUT:-/tmp/try/$(basename "$D")}
mkdir -p "$OUT"
cd /repo || exit 9
if [ -n "$(git status --porcelain)" ]; then echo "/repo is not clean"; exit 9; fi
revert() { git -C /repo checkout -q -- . ; git -C /repo clean -fdq -e target; }
trap revert EXIT
if ! git apply "$D/patch.diff"; then echo "PATCH-DOES-NOT-APPLY"; exit 8; fi
if [ "${TRY_SUITE:-1}" = 1 ]; then
  if cargo test --workspace --offline >"$OUT/suite.log" 2>&1; then echo "suite: passes with the mutant"; else echo "suite: FAILS with the mutant (not a valid seeded change)"; tail -5 "$OUT/suite.log"; fi
fi
if [ -f "$D/demo.rs" ] && [ "${TRY_DEMO:-1}" = 1 ]; then
  sub=${TRY_DEMO_CRATE:-indextree}
  [ -f "$D/demo-deps.diff" ] && git apply "$D/demo-deps.diff"
  cp "$D/demo.rs" /repo/$sub/tests/zz_seeded_demo.rs
  if cargo test -p $sub --offline ${TRY_DEMO_FEATURES:+--features $TRY_DEMO_FEATURES} --test zz_seeded_demo >"$OUT/demo.log" 2>&1; then echo "demo: passes with the mutant (?!)"; else echo "demo: fails with the mutant (as it should)"; fi
  rm -f /repo/$sub/tests/zz_seeded_demo.rs
fi
cd /verif
for p in "$@"; do
  VERIF_EVIDENCE_DIR="$OUT/evidence" VERIF_REPLAY_DIR="$OUT/replays" timeout 1200 ./check "$p" --tier "${TRY_TIER:-quick}" >"$OUT/$p.log" 2>&1
  rc=$?
  echo "check $p: exit $rc  $(grep -c '^VIOLATION' "$OUT/$p.log") violation line(s)  $(grep -m1 -E 'INCONCLUSIVE' "$OUT/$p.log" | cut -c1-160)"
  grep -m3 -E "signature:|detail:" "$OUT/$p.log" | cut -c1-220
done
