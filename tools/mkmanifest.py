#!/usr/bin/env python3
"""Regenerates /verif/MANIFEST.json from the table below (kept in one place so it stays consistent)."""
import json, os

VERIF = os.path.dirname(os.path.dirname(os.path.realpath(__file__)))

# id -> (technique, level text, level note, design ref)
P = {
 "C01": ("runtime invariant monitor (independent link walker) after every call of generated + systematically enumerated histories; dev and release builds",
         "Exploration: an invariant walker over as_slice() that uses neither the model nor the library's iterators checks all five links of all live slots after EVERY call (accepted, rejected or panicked) of ~10^5..10^6 hostile histories and of the complete product shape(<=N nodes) x operation x ordered argument pair. Bounded-complete below N, sampled above; a for-all over histories cannot be decided by executions, so this is the strongest level this family offers.",
         "Trusts Node accessors, Node::is_removed, NodeId::is_removed (stamp comparison) and usize::from(NodeId) as observation channel; in-library debug_asserts act as extra monitors in the dev build.", "DESIGN.md 4/C01"),
 "C02": ("runtime monitors: bounded raw link walks + every library iterator under take(bound) with seen-sets after every call; call-return watchdog",
         "Exploration: after every call bounded parent/next/previous walks from every live node, and every iterator from every start node consumed through take(2n+3) with duplicate detection; a worker stuck inside one call is detected by a watchdog and confirmed by re-running the single history. Workloads biased to ancestor/descendant/sibling/self argument pairs plus the complete small-shape sweep.",
         "A wall-clock stall alone is never a verdict: it must reproduce at the same call of the same history with a 90 s limit (pre-state verified acyclic).", "DESIGN.md 4/C02"),
 "C03": ("history + executable reference model (sibling lists): all links of all slots compared after every successful insert/detach/append_value; clone differential for append_value and no-op reinserts",
         "Exploration: the model derives the documented result; the full link + payload comparison gives the positive effect and the frame condition in one check, for every call of the generated histories and the complete small-shape sweep, in dev and release.",
         "Trusts the model's reading of the documentation (top-level nodes as children of an implicit parent).", "DESIGN.md 4/C03"),
 "C04": ("history + executable reference model: liveness of every slot and all links of all survivors after every remove / remove_subtree",
         "Exploration: as C03 for the two removal paths, over node classes root/inner/leaf/first/middle/last/only child/chain member (counted in evidence), after earlier moves and recycling; complete below the W2 bound.",
         "Model semantics for top-level removal: children stay together as one parentless chain merged into x's chain.", "DESIGN.md 4/C04"),
 "C05": ("runtime monitor of results/panics under catch_unwind: exactness of refusal, reason classification, snapshot equality, checked/unchecked differential on clones, dev-vs-release observation-digest comparison",
         "Exploration: every one of the eight entry points with every relation class (self, removed, ancestor, descendant, sibling, in place...) in W1 and every ordered pair in W2; the same seeded histories run in the debug-assertion and the release build and their per-history observation digests are compared offline.",
         "Which reason is reported when several apply, and panic messages, are not judged; unknown NodeError variants skip only the reason check.", "DESIGN.md 4/C05"),
 "C06": ("runtime monitor: set of all issued ids (unique-value discipline) + is_removed of every historical id; generation-churn workload across and beyond the i16 stamp range",
         "Exploration: 70 000..500 000 recycle cycles of 1-7 slots (more than twice the counter range), every id ever issued re-checked at checkpoints and in a window around each counter wrap, plus mixed histories with clear(); dev build adds overflow checks.",
         "No assumption on how generations are encoded; retirement of an exhausted slot is accepted.", "DESIGN.md 4/C06"),
 "C07": ("runtime monitor: available-slot set model at every allocation (new_node, append_value), bystander equality against the pre-call snapshot, drain probes on clones (whole free list observed through behaviour), retirement threshold; generated tree! programs on arenas with free slots judged on their allocation facts",
         "Exploration: alloc/free interleavings with many simultaneously free slots, remove_subtree bursts, re-freeing of recycled slots; two-round drain probe at every checkpoint; churn workloads for retirement (by remove, by remove_subtree, by clear()); ballast forests of up to 2100 nodes; tree! literals (count() growth against free slots, one live node per expression, existing nodes unchanged).",
         "Reuse ORDER is not part of the property and not checked; a slot may stop being offered only after >= 10 000 recycles.", "DESIGN.md 4/C07"),
 "C08": ("runtime monitor on a drop-counting heap payload: payload identity through every read path after every call, per-token drop counters, conservation created = live + dropped; Miri and ASan+LeakSanitizer as independent oracles",
         "Exploration: every live node's token and value re-read after every call of histories with get_mut/IndexMut/iter_mut writes, value replacement, clear and arena drop; drop table holds integers only so leak detectors are not blinded.",
         "Sanitizer runs are additional oracles on smaller workloads, not the deciding step for the behavioural part.", "DESIGN.md 4/C08"),
 "C09": ("runtime monitor: every traversal iterator from every live start node compared with the sequence defined by the reference model; next/prev_traverse inverse + expected value on every edge; internal-iteration laws (fold, count, last, nth, skip/step_by, any/all/find/position/find_map, size_hint) on fresh and partly consumed iterators",
         "Exploration: all start nodes of all checkpoint states of restructuring histories and of every enumerated shape (<= 7/8 nodes, complete), all nine iterators + stepping.",
         "Expected sequences come from the model, which is verified equal to the arena's links at the same boundary.", "DESIGN.md 4/C09"),
 "C10": ("runtime monitor: all 2^(k+2) front/back pull patterns (sampled above k=5) on children / preceding_siblings / following_siblings of every live node against the forward sequence",
         "Exploration: every node class (parentless with/without top-level siblings, only child, first/middle/last child, childless) in every enumerated shape and at history checkpoints; rev() compared as well; pulls after exhaustion must be None.",
         "", "DESIGN.md 4/C10"),
 "C11": ("runtime monitor: agreement of all lookup paths (addresses of get/Index/get_mut/IndexMut/iter/as_slice, get_node_id, get_node_id_at, conversions) for every slot and out-of-range position (also 2^k + position) after every call; generation churn by remove and by clear(); Miri with randomised base addresses",
         "Exploration: states with removed and recycled slots, growth (buffer reallocation), clear; foreign node references from clones, other arenas, stack and heap copies.",
         "", "DESIGN.md 4/C11"),
 "C12": ("runtime monitor: removed-not-recycled slots report no links at every boundary; refusal + atomicity probes of all eight inserts and append_value with removed ids on clones; recycled slot starts without links",
         "Exploration: long-lived removed slots (allocation suppressed), both removal paths, dev and release (the relevant guard used to be a debug_assert), complete small-shape variants with a removed slot.",
         "", "DESIGN.md 4/C12"),
 "C13": ("lock-step differential monitors: same history on new() vs with_capacity(k); clone + divergent continuations vs scratch replays; cleared vs new arena under a common continuation; capacity guarantees (13 payload types, five of them zero-sized); Debug text of equal arenas; 34 000+ clear() rounds on one arena; cross-build digest comparison",
         "Exploration: 16 000 / 120 000 histories with reserve, writes, removed and recycled slots before the clone/clear point.",
         "Arena equality is the derived PartialEq (all slots + free-list ends).", "DESIGN.md 4/C13"),
 "C14": ("runtime monitor: reference renderer over the model vs debug_pretty_print in four format modes, payloads written in irregular write_str chunks",
         "Exploration: every start node of checkpoint shapes and of every enumerated shape (<= 7/8 nodes) with multi-line payloads over an alphabet containing the guide strings.",
         "Domain: renderings non-empty and not ending in a newline (as the property states).", "DESIGN.md 4/C14"),
}

P.update({
 "C15": ("runtime monitor over generated programs: seeded generator writes tree! literals + expected trees, each literal is compiled and executed against a pre-populated arena; shape compared level by level, side-effect log for evaluation order/count, bystander equality; Miri (+ASan in thorough) on the expansion's unsafe",
         "Exploration over programs: every ordered forest up to 5/6 nodes x both root forms x plain/decorated spelling, plus 500 / 20 000 random literals (depth<=7, width<=7, <=80 nodes, random '=> {}', trailing commas and expression spellings).",
         "Only generated programs are observed; a compile error located in the generated file is a violation, any other build failure inconclusive.", "DESIGN.md 4/C15"),
 "C16": ("runtime monitor: round trip through serde_json (visit_map path) and an in-harness positional format (visit_seq path) at random points of hostile histories; equality, per-id is_removed/links/payload agreement, then lock-step continuation on the copies",
         "Exploration: ~10^5 round trips per run over states with removed, recycled and pending reusable slots; every later call is applied to original and copies and must return the same result and leave equal arenas.",
         "serde, serde_json and the positional format are trusted.", "DESIGN.md 4/C16"),
 "C17": ("offline checker over recorded observation logs: one seeded battery of histories is executed under 4 / 16 feature sets (library built no_std+alloc when std is off) and the per-history observation digests are compared; par_iter vs iter by address; tree! vs hand-built; stale ids, bounded sinks, a size battery up to 100 000 nodes with capacity(), clear() churn",
         "Exploration over configurations x histories: every observable of the core API after every call (results incl. error text, ids, links, all traversals, pretty-printed text) is folded into a digest per history; any feature set whose digest differs is a violation.",
         "The harness links std in every configuration; only the library is compiled without it.", "DESIGN.md 4/C17"),
 "C18": ("compile-time gate observed by the type checker (Send/Sync of Arena<T>, Node<T>, NodeId generic in T with std, no_std and par_iter; Freeze; -F unsafe_code) + runtime: 16 reader threads and par_iter on shared arenas compared with the single-thread digest (scoped, long-lived with in-place edits between rounds, and all threads released by a barrier onto one arena of 30 000+ nodes), Miri data-race detector over several schedules, ThreadSanitizer in thorough",
         "The for-all-T / for-all-schedules part is decided by the compiler; the runtime part observes hundreds of distinct interleavings (counted) and two independent race detectors.",
         "Freeze is shallow; interior mutability behind a pointer is only caught if it changes observations or races. Send/Sync of the iterator types is not asserted (the property does not state it).", "DESIGN.md 4/C18"),
})

NA = {}

try:
    import manifest_extra
    manifest_extra.apply(P, NA)
except ImportError:
    pass

checks = []
for pid in sorted(P):
    tech, text, note, ref = P[pid]
    checks.append({
        "property_id": pid,
        "quick_cmd": "./check %s --tier quick" % pid,
        "thorough_cmd": "./check %s --tier thorough" % pid,
        "evidence_file": "/verif/evidence/%s.json" % pid,
        "replay_cmd_template": "./check %s --replay {path}" % pid,
        "engine": "E1-mon" if pid not in ("C15", "C17", "C18") else {"C15": "E3-macrogen", "C17": "E2-battery", "C18": "E4-readers+E5-typecheck"}[pid],
        "level_claimed": {"category": "exploration", "text": text, "design_ref": ref},
        "level_note": (note or "see DESIGN.md") + " Workloads and laws added after the rounds of independently seeded changes (copy probe via clone_from / serde round trip, pre-worn arenas and generation churn, internal-iteration laws, deep-tree child process, all-features release build) are listed in DESIGN.md section 8; section 9 lists the seeded changes and which check catches which.",
        "technique": tech,
    })

manifest = {
    "version": 1,
    "setup_cmd": "./setup.sh",
    "hooks": {
        "guard": "indextree_verif",
        "enable": "none needed: every monitor observes through the public API; the guard name is reserved and unused (zero hook commits)",
        "baseline_off_cmd": "cd /repo && cargo test --workspace --no-fail-fast --offline",
        "source_commits": [],
        "add_only": True,
    },
    "engines": [
        {"name": "E1-mon", "path": "harness/src/bin/mon.rs", "serves_properties": ["C01", "C02", "C03", "C04", "C05", "C06", "C07", "C08", "C09", "C10", "C11", "C12", "C13", "C14", "C16"],
         "kind_free_text": "monitor runner: reference model + invariant walkers + property monitors over W1/W2/W3 workloads, 16 worker threads, replay"},
        {"name": "E2-battery", "path": "harness/src/special.rs (BatteryHook) + lib/checks_extra.py", "serves_properties": ["C17", "C13"],
         "kind_free_text": "observation-log battery with per-history digests, compared offline across feature sets and build profiles"},
        {"name": "E3-macrogen", "path": "harness/macrogen + lib/macrogen.py", "serves_properties": ["C15"],
         "kind_free_text": "generator of tree! programs with expected trees; generated crate executed natively, under Miri and ASan"},
        {"name": "E4-readers+E5-typecheck", "path": "harness/src/bin/readers.rs + harness/typecheck", "serves_properties": ["C18"],
         "kind_free_text": "concurrent reader workload (native, Miri many-seeds, TSan) and compile-time auto-trait / unsafe_code gate"},
    ],
    "checks": checks,
    "not_applicable": [{"property_id": k, "reason": v} for k, v in sorted(NA.items()) if k not in P],
    "notes": "Technique family: runtime monitoring and sanitizers. Genuine defects found by the monitors were repaired in /repo with 'fix:' commits and are recorded in known_findings.txt (no open finding). Exit 2 + 'INCONCLUSIVE' means no verdict (build failure, harness error, coverage floor). Every behavioural check runs a default-features build with debug assertions and an all-features release build; 180 independently written seeded changes (seeded/) are all detected by the quick tier.",
}

json.dump(manifest, open(os.path.join(VERIF, "MANIFEST.json"), "w"), indent=1)
print("MANIFEST.json written:", len(checks), "checks,", len(manifest["not_applicable"]), "not applicable")
