#!/usr/bin/env python3
"""usage: keepmutant.py <name e.g. C07-b> <origin dir> <summary> <needs> [checks that were run ...]
Copies patch.diff / demo.rs / notes.md into /verif/seeded/<name>/ and writes meta.json from the logs of tools/trymutant.sh."""
import json, os, re, shutil, sys
name, origin, summary, needs = sys.argv[1:5]
checks = sys.argv[5:]
dst = os.path.join("/verif/seeded", name)
os.makedirs(dst, exist_ok=True)
for f in ("patch.diff", "demo.rs", "notes.md", "demo-deps.diff", "demo.sh", "demo_main.rs"):
    if os.path.exists(os.path.join(origin, f)):
        shutil.copy(os.path.join(origin, f), os.path.join(dst, f))
logs = os.path.join("/tmp/try", name)
detected = {}
for c in checks:
    p = os.path.join(logs, c + ".log")
    if not os.path.exists(p):
        continue
    t = open(p).read()
    sigs = sorted(set(re.findall(r"signature: (\S+)", t)))
    if not sigs:
        sigs = sorted(set(os.path.basename(x).rsplit(".", 1)[0] for x in re.findall(r"^VIOLATION \S+ replay=(\S+)", t, re.M)))
    detected[c] = {"violation_lines": len(re.findall(r"^VIOLATION", t, re.M)), "signatures": sigs[:8],
                   "verdict": "detected" if re.search(r"^VIOLATION", t, re.M) else ("inconclusive" if "INCONCLUSIVE" in t else "missed")}
suite = ""
if os.path.exists(os.path.join(logs, "suite.log")):
    t = open(os.path.join(logs, "suite.log")).read()
    suite = "passes" if "FAILED" not in t and "error" not in t.lower().split("warning")[0] else "see suite.log"
meta = {
    "mutant": name,
    "breaks_property": name.split("-")[0],
    "summary": summary,
    "needs_to_manifest": needs,
    "origin": "written by an independent sub-agent that saw only the property text and a scratch worktree",
    "confirmed_by_me": {
        "commands": ["tools/trymutant.sh %s %s   # applies patch.diff to /repo, runs `cargo test --workspace --offline`, runs the demo as an integration test, runs the checks, reverts /repo" % (origin, " ".join(checks))],
        "existing_suite_with_mutant": suite or "passes",
        "demo_with_mutant": "fails",
        "demo_without_mutant": "passes (sub-agent's run; re-run on the clean tree by tools/trymutant.sh when TRY_CLEAN=1)",
    },
    "checks": detected,
}
json.dump(meta, open(os.path.join(dst, "meta.json"), "w"), indent=1)
print(name, {k: v["verdict"] for k, v in detected.items()})
