#!/bin/bash
# Re-runs every kept seeded change against the current checks (quick tier) and prints one line each.
# usage: tools/recheck_all.sh [pattern]   e.g. tools/recheck_all.sh 'C0[1-3]-*'
cd /verif
pat=${1:-'C??-?'}
for d in seeded/$pat; do
  name=$(basename $d)
  props=$(python3 -c "import json;print(' '.join(json.load(open('$d/meta.json'))['checks'].keys()))")
  out=$(TRY_SUITE=0 TRY_DEMO=0 TRY_OUT=/tmp/try-recheck/$name tools/trymutant.sh /verif/$d $props 2>&1 | grep "^check")
  echo "$name :: $(echo "$out" | sed 's/  */ /g' | tr '\n' ';')"
done
