"""Checks that need more than the plain monitor run: C16 (deser build), C17 (feature matrix),
C15 (generated tree! programs), C18 (threads, race detectors, compile-time gate),
sanitizer side-runs of C08 / C11."""
import os


def register(m):
    m.CHECKS["C16"] = lambda tier, seed: m.check_monitored(
        "C16", tier, seed, features=["deser"], target="deser",
        extra_assumptions=["serde, serde_json and the in-harness positional format (harness/src/posfmt.rs) are trusted",
                           "payload type is a plain struct deriving Serialize/Deserialize"])


ALL_FEATURES = ["std", "macros", "par_iter", "deser"]


def feature_sets(tier):
    if tier == "thorough":
        sets = []
        for mask in range(16):
            sets.append([f for i, f in enumerate(ALL_FEATURES) if mask >> i & 1])
        return sets
    return [[], ["std"], ["std", "macros"], ["std", "macros", "par_iter", "deser"]]


def fs_name(fs):
    return "+".join(fs) if fs else "none"


def build_feature_sets(m, sets, profile="dev"):
    """parallel cargo builds, one target dir per feature set"""
    import concurrent.futures
    def one(fs):
        return m.cargo_build(os.path.join(m.BUILD, "feat-" + fs_name(fs)), profile, features=fs, no_default=True)
    with concurrent.futures.ThreadPoolExecutor(max_workers=4) as ex:
        list(ex.map(one, sets))


def check_c17(m, tier, seed):
    import time
    t0 = time.time()
    sets = feature_sets(tier)
    runs = [(fs, "dev") for fs in sets]
    build_feature_sets(m, sets, "dev")
    if tier == "thorough":
        rel = feature_sets("quick")
        build_feature_sets(m, rel, "release")
        runs += [(fs, "release") for fs in rel]
    parts, digests, viol = [], {}, []
    for fs, prof in runs:
        name = fs_name(fs) + ("" if prof == "dev" else "@release")
        binary = m.mon_path(os.path.join(m.BUILD, "feat-" + fs_name(fs)), prof)
        rc, out, data, digs, dt = m.run_mon(binary, "C17", tier, seed, name.replace("@", "-"))
        v, known, other = m.relay(out)
        for l in other:
            if l.startswith("mon "):
                m.say("[%s] %s" % (name, l))
        if rc == 2 or rc not in (0, 1):
            raise m.Inconclusive("battery run under feature set %s ended with status %s: %s" % (name, rc, "\n".join(other[-5:])))
        viol += v
        for k in known:
            m.say(k)
        parts.append((name, data))
        digests[name] = digs
    cov = m.merge_cov(parts)
    # distinct: every feature set replays the same battery; count the cases of one run
    cov["rule"] = ("one fixed seeded battery of hostile histories (W1 small + large) is executed under every feature set; after every call "
                   "the hook logs every observable of the core API (result incl. error Display/Debug text, ids via Display/usize/Debug, count, "
                   "liveness, Node Display = all five links, payload, all nine traversals + two rev() from every live node, pretty print in four "
                   "modes) into a per-history digest; the offline checker compares the digests of all feature sets pairwise against the first; "
                   "evaluations = call boundaries observed summed over feature sets; distinct_nontrivial = distinct (shape, operation, argument "
                   "positions) tuples of ONE run of the battery (identical in every set, not multiplied)")
    base_name = fs_name(sets[0])
    base = digests[base_name]
    compared, mism = 0, []
    for name, d in digests.items():
        if name == base_name:
            continue
        if set(d) != set(base):
            mism.append((name, "<set of histories differs>", "", ""))
        for k in base:
            if k in d:
                compared += 1
                if d[k] != base[k]:
                    mism.append((name, k, base[k], d[k]))
    cov["feature_sets"] = [n for n, _ in parts]
    cov["history_digests_compared"] = compared
    cov["history_digest_mismatches"] = len(mism)
    if mism:
        os.makedirs(m.REPLAYS, exist_ok=True)
        path = os.path.join(m.REPLAYS, "C17-feature-divergence.txt")
        with open(path, "w") as f:
            f.write("property=C17\nsignature=features/observation-digest-differs\nseed=%d\nbaseline=%s\n" % (seed, base_name))
            for name, k, a, b in mism[:100]:
                f.write("feature-set=%s history=%s baseline-digest=%s digest=%s\n" % (name, k, a, b))
        viol.append("VIOLATION property=C17 replay=%s" % path)
        m.say("  %d history digests differ from feature set '%s' (first: %s under %s)" % (len(mism), base_name, mism[0][1], mism[0][0]))
    for v in viol:
        m.say(v)
    wall = time.time() - t0
    m.write_evidence("C17", tier, seed, cov, wall, len(viol), m.COMMON_ASSUMPTIONS + [
        "the harness itself links std in every configuration; the library crate is compiled #![no_std] + alloc when 'std' is off",
        "only core-API observations are compared (std::error::Error being implemented only with 'std' is additive)"])
    if viol:
        return 1
    if compared == 0:
        raise m.Inconclusive("no digests compared")
    m.say("C17 %s: %d feature sets, %d history digests compared, all equal, in %.1fs" % (tier, len(runs), compared, wall))
    return 0


_old_register = register


def register(m):  # noqa: F811
    _old_register(m)
    m.CHECKS["C17"] = lambda tier, seed: check_c17(m, tier, seed)


# --------------------------------------------------------------------------- C15

MACROGEN = None


def _macro_build_run(m, gen_path, target, toolchain=None, miri=False, asan=False, release=False, timeout=1500):
    """returns (kind, output) kind in ok|finding|compile-error|build-error|sanitizer"""
    env = dict(m.ENV)
    env["IXV_GENERATED"] = gen_path
    env["CARGO_TARGET_DIR"] = os.path.join(m.BUILD, target)
    crate = os.path.join(m.HARNESS, "macrogen")
    if miri:
        env["MIRIFLAGS"] = "-Zmiri-disable-isolation"
        cmd = ["cargo", "+nightly", "miri", "run", "--offline", "--quiet"]
        rc, out, dt = m.run(cmd, cwd=crate, env=env, timeout=timeout)
        if "Undefined Behavior" in out or "memory leaked" in out or "error: unsupported operation" in out:
            return "sanitizer", out
        if rc != 0 and "FINDING " not in out:
            if "error" in out and gen_path in out:
                return "compile-error", out
            return "build-error", out
        return ("finding" if "FINDING " in out else "ok"), out
    cmd = ["cargo"] + (["+nightly"] if asan else []) + ["build", "--offline", "--quiet"]
    triple = None
    if asan:
        env["RUSTFLAGS"] = "-Zsanitizer=address -Cforce-frame-pointers=yes"
        triple = "x86_64-unknown-linux-gnu"
        cmd += ["--target", triple]
    if release:
        cmd.append("--release")
    rc, out, dt = m.run(cmd, cwd=crate, env=env, timeout=timeout)
    if rc != 0:
        errs = [l for l in out.splitlines() if l.startswith("error")]
        if gen_path in out or "tree!" in out:
            return "compile-error", out
        return "build-error", out
    d = os.path.join(env["CARGO_TARGET_DIR"], triple) if triple else env["CARGO_TARGET_DIR"]
    binary = os.path.join(d, "release" if release else "debug", "ixv-macrogen")
    renv = dict(m.ENV)
    if asan:
        renv["ASAN_OPTIONS"] = "detect_leaks=1:halt_on_error=1:abort_on_error=0"
    rc, out, dt = m.run([binary], cwd=m.VERIF, env=renv, timeout=timeout)
    if "AddressSanitizer" in out or "LeakSanitizer" in out:
        return "sanitizer", out
    if rc < 0 or rc in (134, 139):
        # the generated program died from a signal (double free / invalid free detected by the allocator, segfault)
        return "crash", out + "\n[process killed by signal %d]" % (-rc if rc < 0 else rc - 128)
    if "FINDING " in out:
        return "finding", out
    if rc != 0:
        return "build-error", out
    return "ok", out


def macro_part_c07(m, tier, seed):
    """C07 names tree! among the ways to create nodes: generated literals run against arenas with free slots, and the
    allocation facts the macrogen monitor records (signatures macro/alloc/...) are judged here; its other findings are C15's."""
    def part(cov):
        import json, re
        import macrogen
        scale = float(os.environ.get("VERIF_SCALE", "1"))
        srcdir = os.path.join(m.BUILD, "macrogen-src")
        os.makedirs(srcdir, exist_ok=True)
        src, index, nsys = macrogen.generate(seed * 100 + 7, int((2500 if tier == "thorough" else 400) * scale), 5 if tier == "thorough" else 4)
        path = os.path.join(srcdir, "c07.rs")
        with open(path, "w") as f:
            f.write(src)
        kind, out = _macro_build_run(m, path, target="macrogen-0")
        summary = None
        for l in out.splitlines():
            if l.startswith("{\"literals\""):
                summary = json.loads(l)
        own = [l for l in out.splitlines() if l.startswith("FINDING ") and "sig=macro/alloc/" in l]
        foreign = [l for l in out.splitlines() if l.startswith("FINDING ") and "sig=macro/alloc/" not in l]
        cov["tree_macro_allocations"] = {"literals": (summary or {}).get("literals", 0), "nodes_created": (summary or {}).get("nodes", 0),
                                         "roots_in_recycled_slot": (summary or {}).get("roots_in_recycled_slot", 0),
                                         "findings_of_other_properties": len(foreign), "run": kind}
        if own:
            os.makedirs(m.REPLAYS, exist_ok=True)
            rp = os.path.join(m.REPLAYS, "C07-macro-alloc.txt")
            with open(rp, "w") as f:
                f.write("property=C07\nsignature=macro/alloc\nseed=%d\n" % seed)
                for l in own[:10]:
                    f.write(l + "\n")
                    mm = re.match(r"FINDING literal=(\d+)", l)
                    if mm:
                        i = int(mm.group(1))
                        f.write("  literal %d: tree!(arena, %s)\n" % (i, index[i][1]))
                f.write("\ngenerated program: %s (regenerate with the same seed)\n" % path)
            m.say("  [tree!] creating nodes through the macro: %s" % own[0][:300])
            return ["VIOLATION property=C07 replay=%s" % rp]
        if kind in ("build-error",) or (summary is None and kind != "compile-error" and not foreign):
            cov["tree_macro_allocations"]["note"] = "the generated program did not run: no observation from this part"
        return []
    return part


def check_c15(m, tier, seed):
    import time, json, concurrent.futures, re
    import macrogen
    t0 = time.time()
    thorough = tier == "thorough"
    srcdir = os.path.join(m.BUILD, "macrogen-src")
    os.makedirs(srcdir, exist_ok=True)
    jobs = []  # (name, gen_path, index, kwargs)
    scale = float(os.environ.get("VERIF_SCALE", "1"))

    def gen(name, s, n_random, sys_nodes, **kw):
        src, index, nsys = macrogen.generate(s, int(n_random * scale), sys_nodes)
        path = os.path.join(srcdir, "%s.rs" % name)
        with open(path, "w") as f:
            f.write(src)
        jobs.append((name, path, index, kw))

    if thorough:
        for k in range(8):
            gen("dev%d" % k, seed * 100 + k, 2500, 6 if k == 0 else 2, target="macrogen-%d" % k)
        gen("release", seed * 100 + 50, 500, 4, target="macrogen-rel", release=True)
        gen("asan", seed * 100 + 60, 1500, 5, target="macrogen-asan", asan=True)
        gen("miri", seed * 100 + 70, 60, 3, target="macrogen-miri", miri=True)
    else:
        gen("dev0", seed * 100, 500, 5, target="macrogen-0")
        gen("miri", seed * 100 + 70, 24, 3, target="macrogen-miri", miri=True)

    def one(job):
        name, path, index, kw = job
        kind, out = _macro_build_run(m, path, **kw)
        return name, path, index, kind, out

    with concurrent.futures.ThreadPoolExecutor(max_workers=6) as ex:
        results = list(ex.map(one, jobs))

    viol, cov_parts, samples = [], {}, []
    tot = {"literals": 0, "nodes": 0, "distinct_shapes": 0, "new_root_form": 0, "id_root_form": 0, "roots_in_recycled_slot": 0}
    os.makedirs(m.REPLAYS, exist_ok=True)
    for name, path, index, kind, out in results:
        if kind == "build-error":
            raise m.Inconclusive("macrogen job %s could not be built/run for a reason outside the generated literals:\n%s" % (name, out[-1500:]))
        summary = None
        for l in out.splitlines():
            if l.startswith("{\"literals\""):
                summary = json.loads(l)
        if summary:
            cov_parts[name] = summary
            for k in tot:
                if k == "distinct_shapes":
                    tot[k] = max(tot[k], summary[k])
                else:
                    tot[k] += summary[k]
        if kind == "ok":
            m.say("[%s] %s" % (name, json.dumps(summary)))
            if not samples:
                samples = [{"literal": "tree!(arena, %s)" % s, "expected": e, "root_given_as_NodeId": f} for (_, s, e, f) in index[len(index) // 2: len(index) // 2 + 3]]
            continue
        rp = os.path.join(m.REPLAYS, "C15-%s-%s.txt" % (name, kind))
        with open(rp, "w") as f:
            f.write("property=C15\nsignature=macro/%s\njob=%s\nseed=%d\n" % (kind, name, seed))
            if kind == "finding":
                for l in out.splitlines():
                    if l.startswith("FINDING "):
                        f.write(l + "\n")
                        mm = re.match(r"FINDING literal=(\d+)", l)
                        if mm:
                            i = int(mm.group(1))
                            f.write("  literal %d: tree!(arena, %s)\n  expected: %s\n" % (i, index[i][1], index[i][2]))
            else:
                f.write(out[-6000:])
            f.write("\ngenerated program: %s (regenerate with the same seed)\n" % path)
        m.say("  [%s] %s" % (name, {"finding": "a generated literal built the wrong tree / evaluated expressions wrongly",
                                    "compile-error": "a well-formed generated literal was rejected by the compiler",
                                    "sanitizer": "a memory checker reported an error in the expansion",
                                    "crash": "executing the generated literals killed the process (double free / invalid memory access in the expansion)"}[kind]))
        first = [l for l in out.splitlines() if l.startswith("FINDING ") or l.startswith("error")][:2]
        for l in first:
            m.say("    " + l[:300])
        viol.append("VIOLATION property=C15 replay=%s" % rp)
    for v in viol:
        m.say(v)
    cov = {
        "evaluations": tot["literals"],
        "distinct_nontrivial": tot["distinct_shapes"],
        "rule": "cases = generated tree! literals (systematic: every ordered forest up to the node bound x both root forms x plain/fully "
                "decorated spelling; random: depth<=7, width<=7, <=80 nodes, random spellings of '=> {}' and trailing commas and of the "
                "node expressions), each compiled and executed against an arena that already holds unrelated trees, an anchor node with "
                "0-3 children and 0-3 free slots; evaluations = literals executed under the monitor (all jobs); distinct_nontrivial = "
                "distinct expected renderings (shape + root form) within the largest single job, counted by the monitor with a hash set",
        "samples": samples or [{"note": "no job finished without finding"}],
        "jobs": cov_parts,
        "nodes_created_by_macros": tot["nodes"],
        "new_root_form": tot["new_root_form"],
        "id_root_form": tot["id_root_form"],
        "roots_in_recycled_slot": tot["roots_in_recycled_slot"],
        "memory_checkers": [n for n, _, _, _, _ in results if n in ("miri", "asan")],
    }
    wall = time.time() - t0
    m.write_evidence("C15", tier, seed, cov, wall, len(viol), [
        "only generated programs are observed; macro hygiene corner cases (user expressions naming __node, Arena<NodeId>) are outside the generator",
        "a compile error located in the generated file counts as a violation (well-formed input must be accepted); any other build failure is inconclusive",
        "Miri/ASan observe the unsafe ManuallyDrop::take of the expansion on their own smaller job",
    ])
    if viol:
        return 1
    if tot["literals"] == 0:
        raise m.Inconclusive("no literal executed")
    m.say("C15 %s: %d literals (%d nodes) built exactly the written trees; %.1fs" % (tier, tot["literals"], tot["nodes"], wall))
    return 0


_old_register2 = register


def register(m):  # noqa: F811
    _old_register2(m)
    m.CHECKS["C15"] = lambda tier, seed: check_c15(m, tier, seed)


# --------------------------------------------------------------------------- C18

def check_c18(m, tier, seed):
    import time, json, re
    t0 = time.time()
    thorough = tier == "thorough"
    viol, cov = [], {}
    os.makedirs(m.REPLAYS, exist_ok=True)

    def violation(name, text):
        rp = os.path.join(m.REPLAYS, "C18-%s.txt" % name)
        with open(rp, "w") as f:
            f.write("property=C18\nsignature=c18/%s\nseed=%d\n%s\n" % (name, seed, text[-6000:]))
        viol.append("VIOLATION property=C18 replay=%s" % rp)

    # (a) compile-time gate: the compiler is the observer, for every T
    env = dict(m.ENV)
    env["CARGO_TARGET_DIR"] = os.path.join(m.BUILD, "typecheck")
    rc, out, _ = m.run(["cargo", "+nightly", "build", "--offline", "--quiet", "--features", "freeze"],
                       cwd=os.path.join(m.HARNESS, "typecheck"), env=env, timeout=900)
    if rc == 0:
        # the same assertions against the library built without std (no_std + alloc)
        env2 = dict(env)
        env2["CARGO_TARGET_DIR"] = os.path.join(m.BUILD, "typecheck-nostd")
        rc, out, _ = m.run(["cargo", "+nightly", "build", "--offline", "--quiet", "--no-default-features", "--features", "freeze"],
                           cwd=os.path.join(m.HARNESS, "typecheck"), env=env2, timeout=900)
    if rc == 0:
        # ... and, with the par_iter feature, that par_iter() asks for nothing but T: Sync
        env3 = dict(env)
        env3["CARGO_TARGET_DIR"] = os.path.join(m.BUILD, "typecheck-par")
        rc, out, _ = m.run(["cargo", "+nightly", "build", "--offline", "--quiet", "--features", "freeze,par_iter"],
                           cwd=os.path.join(m.HARNESS, "typecheck"), env=env3, timeout=900)
    gate = {"auto_trait_assertions": 0, "library_configurations": ["std", "no_std+alloc", "std+par_iter"]}
    if rc != 0:
        errs = "\n".join(l for l in out.splitlines() if not l.startswith("warning"))
        # the only trait bounds in that crate are Send / Sync / Freeze (E0277) and the availability of
        # par_iter() for T: Sync (E0599: method exists but its trait bounds are not satisfied)
        if ("E0277" in out or "E0599" in out) and "src/lib.rs" in out:
            m.say("  compile-time gate failed: Send / Sync / Freeze does not hold for every T")
            violation("auto-traits", errs)
        else:
            raise m.Inconclusive("typecheck crate did not build for a reason other than the auto-trait assertions:\n%s" % errs[-1500:])
    else:
        src = open(os.path.join(m.HARNESS, "typecheck", "src", "lib.rs")).read()
        gate["auto_trait_assertions"] = len(re.findall(r"is_(send|sync|freeze)::<", src))
    env = dict(m.ENV)
    env["CARGO_TARGET_DIR"] = os.path.join(m.BUILD, "forbid")
    rc, out, _ = m.run(["cargo", "rustc", "--manifest-path", os.path.join(m.REPO, "indextree", "Cargo.toml"), "--lib", "--offline", "--quiet",
                        "--", "-F", "unsafe_code"], cwd=m.VERIF, env=env, timeout=900)
    if rc != 0:
        if "unsafe_code" in out or "usage of an `unsafe`" in out or "unsafe" in out and "forbid" in out:
            m.say("  the library contains unsafe code (build with -F unsafe_code failed)")
            violation("unsafe-code", out)
        else:
            raise m.Inconclusive("library did not build with -F unsafe_code for an unrelated reason:\n%s" % out[-1500:])
    gate["library_builds_with_forbid_unsafe_code"] = rc == 0
    cov["compile_time_gate"] = gate
    if viol:
        # the type-level part is refuted for every T; the workloads below may not even build then
        for v in viol:
            m.say(v)
        m.write_evidence("C18", tier, seed, {
            "evaluations": 1, "distinct_nontrivial": 2,
            "rule": "compile-time gate only: the run stopped at the first refuted type-level fact (runtime workloads were not started)",
            "samples": [{"compile_time_gate": gate}], "compile_time_gate": gate}, time.time() - t0, len(viol),
            ["the compile-time gate failed; see the replay file for the compiler's diagnostics"])
        return 1

    # (b) reader threads, native
    m.cargo_build(os.path.join(m.BUILD, "par"), "dev", features=["par_iter"], bins=("readers",))
    scale = float(os.environ.get("VERIF_SCALE", "1"))
    arenas = int((3000 if thorough else 400) * scale) + 1
    binary = os.path.join(m.BUILD, "par", "debug", "readers")
    rc, out, dt = m.run([binary, "--seed", str(seed), "--arenas", str(arenas), "--len", "250", "--max-live", "48", "--reps", "4" if thorough else "3",
                         "--big", str(int((120000 if thorough else 30000) * min(scale, 1.0)) + 5000)],
                        cwd=m.VERIF, timeout=3000)
    native = None
    for l in out.splitlines():
        if l.startswith("{\"arenas\""):
            native = json.loads(l)
    if rc == 2 or native is None:
        raise m.Inconclusive("reader workload did not run: %s" % out[-800:])
    if rc == 1:
        m.say("  a reader thread observed something a single thread does not: %s" % "".join(l for l in out.splitlines() if l.startswith("READERS-FINDING")))
        violation("reader-digest", out)
    cov["native_readers"] = native
    m.say("[native] %s" % json.dumps(native))

    # (c) Miri data-race detector, different schedules via many-seeds
    env = dict(m.ENV)
    env["CARGO_TARGET_DIR"] = os.path.join(m.BUILD, "miri")
    nseeds = 16 if thorough else 4
    env["MIRIFLAGS"] = "-Zmiri-disable-isolation -Zmiri-tree-borrows -Zmiri-ignore-leaks -Zmiri-many-seeds=0..%d" % nseeds
    rc, out, dt = m.run(["cargo", "+nightly", "miri", "run", "--offline", "--quiet", "--features", "par_iter", "--bin", "readers", "--",
                         "--seed", str(seed), "--arenas", "3" if thorough else "2", "--threads", "3" if thorough else "2", "--len", "40" if thorough else "24", "--max-live", "8" if thorough else "6", "--reps", "1"],
                        cwd=m.HARNESS, env=env, timeout=3000)
    runs = [json.loads(l) for l in out.splitlines() if l.startswith("{\"arenas\"")]
    if "Undefined Behavior" in out or "Data race" in out or "data race" in out:
        m.say("  Miri reported undefined behaviour / a data race in the reader workload")
        violation("miri", out)
    elif rc != 0 and not any(l.startswith("READERS-FINDING") for l in out.splitlines()):
        raise m.Inconclusive("Miri run failed for an unrelated reason:\n%s" % out[-1500:])
    elif any(l.startswith("READERS-FINDING") for l in out.splitlines()):
        violation("reader-digest-miri", out)
    cov["miri"] = {"seeds": nseeds, "runs_completed": len(runs), "reader_runs": sum(r["reader_runs"] for r in runs),
                   "flags": env["MIRIFLAGS"]}
    m.say("[miri] %d seeds, %d runs completed" % (nseeds, len(runs)))

    # (d) ThreadSanitizer (thorough)
    if thorough:
        env = dict(m.ENV)
        env["CARGO_TARGET_DIR"] = os.path.join(m.BUILD, "tsan")
        env["RUSTFLAGS"] = "-Zsanitizer=thread"
        rc, out, dt = m.run(["cargo", "+nightly", "build", "--offline", "--quiet", "-Zbuild-std", "--target", "x86_64-unknown-linux-gnu",
                             "--features", "par_iter", "--bin", "readers"], cwd=m.HARNESS, env=env, timeout=3000)
        if rc != 0:
            cov["tsan"] = {"available": False, "note": out[-400:]}
            m.say("[tsan] build unavailable; skipped (not a verdict)")
        else:
            tb = os.path.join(m.BUILD, "tsan", "x86_64-unknown-linux-gnu", "debug", "readers")
            reports, reps_done = 0, 0
            tenv = dict(m.ENV)
            tenv["TSAN_OPTIONS"] = "halt_on_error=0:exitcode=66"
            first = ""
            for rep in range(20):
                rc, out, dt = m.run([tb, "--seed", str(seed * 1000 + rep), "--arenas", "40", "--len", "250", "--max-live", "48", "--big", "9000"], cwd=m.VERIF, env=tenv, timeout=1200)
                n = out.count("WARNING: ThreadSanitizer")
                reports += n
                reps_done += 1
                if n and not first:
                    first = out
                if rc == 1 and "READERS-FINDING" in out and not first:
                    first = out
                    reports += 1
            cov["tsan"] = {"available": True, "repetitions": reps_done, "reports": reports}
            m.say("[tsan] %d repetitions, %d reports" % (reps_done, reports))
            if reports:
                violation("tsan", first)
    for v in viol:
        m.say(v)
    evidence = {
        "evaluations": native["reader_runs"] + cov["miri"]["reader_runs"],
        "distinct_nontrivial": native["distinct_interleaving_signatures"],
        "rule": "cases = (shared arena built by a hostile history, reader thread) pairs: 16 threads run the complete read battery "
                "(links, lookups, all traversals, pretty print) on one &Arena with yield_now injected between reads, plus par_iter "
                "consumers; each reader's digest must equal the single-thread digest taken before and after; evaluations = reader "
                "runs compared (native + Miri); distinct_nontrivial = distinct interleaving signatures observed natively (order in which "
                "the threads passed their per-node checkpoints, from a relaxed global counter)",
        "samples": [{"native": native}, {"miri": cov["miri"]}, {"compile_time_gate": gate}],
    }
    evidence.update(cov)
    wall = time.time() - t0
    m.write_evidence("C18", tier, seed, evidence, wall, len(viol), [
        "'for every T' and 'under every scheduling' are decided by the type checker (Send/Sync/Freeze assertions generic in T, -F unsafe_code); "
        "the runtime part observes finitely many schedules",
        "Freeze is shallow: interior mutability behind a pointer (Box<Cell<_>>) is only caught if it changes what readers observe or races",
        "Miri runs with -Zmiri-tree-borrows -Zmiri-ignore-leaks because of rayon/crossbeam-epoch, not because of indextree",
    ])
    if viol:
        return 1
    m.say("C18 %s: compile-time gate ok, %d reader runs equal to the single-thread digest, %d interleaving signatures; %.1fs" %
          (tier, native["reader_runs"], native["distinct_interleaving_signatures"], wall))
    return 0


_old_register3 = register


def register(m):  # noqa: F811
    _old_register3(m)
    m.CHECKS["C18"] = lambda tier, seed: check_c18(m, tier, seed)


# --------------------------------------------------------------------------- sanitizer side-runs (C08, C11)

def _asan_run(m, prop, tier, seed, cov):
    """ASan + LeakSanitizer on a full-size W1 workload; any report block is a violation"""
    import re
    env = {"RUSTFLAGS": "-Zsanitizer=address -Cforce-frame-pointers=yes"}
    try:
        m.cargo_build(os.path.join(m.BUILD, "asan"), "dev", toolchain="nightly", extra_env=env,
                      extra_args=("--target", "x86_64-unknown-linux-gnu"))
    except m.Inconclusive as e:
        cov["asan"] = {"available": False, "note": str(e)[-300:]}
        m.say("[asan] build unavailable; skipped (not a verdict)")
        return []
    binary = m.mon_path(os.path.join(m.BUILD, "asan"), "dev", triple="x86_64-unknown-linux-gnu")
    renv = dict(m.ENV)
    renv["ASAN_OPTIONS"] = "detect_leaks=1:halt_on_error=1:abort_on_error=0:exitcode=77"
    thorough = tier == "thorough"
    extra = ["--small", "200000" if thorough else "20000", "--large", "3000" if thorough else "300", "--w2n", "0", "--offset", "1000000"]
    rc, out, data, digs, dt = m.run_mon(binary, prop, tier, seed, "asan", extra=extra, env=renv)
    reports = len(re.findall(r"ERROR: (AddressSanitizer|LeakSanitizer)", out))
    cov["asan"] = {"available": True, "report_blocks": reports, "call_boundaries": (data or {}).get("call_boundaries", 0),
                   "histories": (data or {}).get("histories", 0), "wall_s": round(dt, 1)}
    m.say("[asan] %d histories, %d call boundaries, %d report blocks" % (cov["asan"]["histories"], cov["asan"]["call_boundaries"], reports))
    viol, known, other = m.relay(out)
    if reports:
        os.makedirs(m.REPLAYS, exist_ok=True)
        rp = os.path.join(m.REPLAYS, "%s-asan-report.txt" % prop)
        with open(rp, "w") as f:
            f.write("property=%s\nsignature=sanitizer/asan\nseed=%d\ncommand=%s %s\n\n%s" % (prop, seed, binary, " ".join(extra), out[-8000:]))
        viol.append("VIOLATION property=%s replay=%s" % (prop, rp))
    elif rc not in (0, 1):
        cov["asan"]["note"] = "run ended with status %s without a sanitizer report: not a verdict" % rc
    return viol


def _miri_run(m, prop, tier, seed, cov, many_seeds=False):
    """Miri (UB / leak / data-race interpreter) on small histories, sharded into parallel processes"""
    import concurrent.futures, re
    thorough = tier == "thorough"
    env = dict(m.ENV)
    env["CARGO_TARGET_DIR"] = os.path.join(m.BUILD, "miri")
    nproc = 16 if thorough else 8
    per = 4 if thorough else 1
    flags = "-Zmiri-disable-isolation"

    def one(k):
        e = dict(env)
        if many_seeds:
            e["MIRIFLAGS"] = flags + " -Zmiri-many-seeds=%d..%d" % (k * 2, k * 2 + 2)
        else:
            e["MIRIFLAGS"] = flags
        cmd = ["cargo", "+nightly", "miri", "run", "--offline", "--quiet", "--bin", "mon", "--", "--prop", prop, "--threads", "1",
               "--small", str(per), "--small-len", "80" if thorough else "36", "--large", "0", "--w2n", "0", "--no-w3", "--c13", "0", "--offset", str(2000000 + seed * 1000 + k * per),
               "--seed", str(seed), "--replay-dir", m.REPLAYS, "--known", m.KNOWN, "--stall-secs", "1800"]
        return m.run(cmd, cwd=m.HARNESS, env=e, timeout=3000)

    # all processes at once: cargo's build-directory lock serialises the (shared, incremental) build by itself
    with concurrent.futures.ThreadPoolExecutor(max_workers=nproc) as ex:
        results = list(ex.map(one, range(nproc)))
    calls = 0
    ub = []
    viol = []
    done = 0
    for rc, out, dt in results:
        for mm in re.finditer(r"^mon \S+ .* calls=(\d+)", out, re.M):
            calls += int(mm.group(1))
            done += 1
        if "Undefined Behavior" in out or "memory leaked" in out or "Data race" in out:
            ub.append(out)
        v, known, other = m.relay(out)
        viol += v
    cov["miri"] = {"processes": nproc, "runs_completed": done, "call_boundaries": calls, "reports": len(ub),
                   "flags": flags + (" -Zmiri-many-seeds (2 address/schedule seeds per process)" if many_seeds else "")}
    m.say("[miri] %d processes, %d runs completed, %d call boundaries, %d reports" % (nproc, done, calls, len(ub)))
    if ub:
        os.makedirs(m.REPLAYS, exist_ok=True)
        rp = os.path.join(m.REPLAYS, "%s-miri-report.txt" % prop)
        with open(rp, "w") as f:
            f.write("property=%s\nsignature=sanitizer/miri\nseed=%d\n\n%s" % (prop, seed, ub[0][-8000:]))
        viol.append("VIOLATION property=%s replay=%s" % (prop, rp))
    elif done == 0:
        cov["miri"]["note"] = "no Miri run completed (tool unavailable?): not a verdict"
    return viol


_old_register4 = register


def register(m):  # noqa: F811
    _old_register4(m)
    m.CHECKS["C08"] = lambda tier, seed: m.check_monitored(
        "C08", tier, seed,
        extra_parts=[lambda cov: _asan_run(m, "C08", tier, seed, cov), lambda cov: _miri_run(m, "C08", tier, seed, cov)],
        extra_assumptions=["ASan/LeakSanitizer and Miri are second, independent oracles for leaked / doubly freed payloads on their own workloads; "
                           "the drop table of the monitor stores integers only, so it cannot hide a block from them"])
    m.CHECKS["C07"] = lambda tier, seed: m.check_monitored(
        "C07", tier, seed,
        extra_parts=[m.deep_part("C07", tier, seed), macro_part_c07(m, tier, seed)],
        extra_assumptions=["the tree! part judges only the allocation facts (count() growth against free slots, one more live node per "
                           "written expression, existing nodes unchanged); the shape a literal builds is C15's question"])
    m.CHECKS["C11"] = lambda tier, seed: m.check_monitored(
        "C11", tier, seed, rule="readonly",
        extra_parts=[lambda cov: _miri_run(m, "C11", tier, seed, cov, many_seeds=True)],
        extra_assumptions=["Miri re-runs a small workload under different randomised base addresses (the only input of get_node_id's range test)"])
