"""W5: generator of well-formed `tree!` programs with their expected trees."""
import random


def gen_forest(rng, budget, depth, max_depth, max_width):
    """ordered forest with at most `budget` nodes; returns (list of trees, nodes used); tree = list of child trees"""
    out = []
    used = 0
    width = rng.choice([0, 1, 1, 2, 2, 3, 3, 4, 5, 7, 8, 9, 11, 14, 18])
    width = min(width, max_width)
    # long runs of leaves, sometimes with only the last (or the first) member nested
    long_run = width >= 8 and rng.random() < 0.6
    for j in range(width):
        if used >= budget:
            break
        remaining = budget - used - 1
        if long_run:
            nest = (j == width - 1 and rng.random() < 0.7) or (j == 0 and rng.random() < 0.3)
        else:
            nest = rng.random() < 0.55
        if depth + 1 < max_depth and remaining > 0 and nest:
            kids, k = gen_forest(rng, rng.randint(1, remaining), depth + 1, max_depth, max_width)
        else:
            kids, k = [], 0
        out.append(kids)
        used += 1 + k
    return out, used


def all_forests(n, memo={}):
    """all ordered forests with exactly n nodes"""
    if n in memo:
        return memo[n]
    if n == 0:
        res = [[]]
    else:
        res = []
        for k in range(1, n + 1):
            for first_kids in all_forests(k - 1):
                for rest in all_forests(n - k):
                    res.append([first_kids] + rest)
    memo[n] = res
    return res


NODE_SPELL = [
    "ev(log, {k})",
    "ev(log, {k})",
    "(ev(log, {k}))",
    "{{ ev(log, {k}) }}",
    "{{ let p = ev(log, {k}); p }}",
    "(|| ev(log, {k}))()",
    "Pay::clone(&ev(log, {k}))",
    "if true {{ ev(log, {k}) }} else {{ unreachable!() }}",
    "held(log).ev({k})",
    "held(log).ev({k})",
]
CALLER_LOCALS = ["parent", "node", "last", "temp", "root", "child", "value", "id", "tree", "arena_ref", "current", "prev", "next", "item", "n", "p", "x", "i"]
ROOT_ID_SPELL = ["rid(log, anchor)", "(rid(log, anchor))", "{ rid(log, anchor) }", "{ let r = rid(log, anchor); r }"]


class Lit:
    def __init__(self):
        self.src = ""
        self.expected = ""
        self.nexpr = 0
        self.id_form = False


def emit(forest, id_form, rng, decorate):
    """forest: children of the root. returns Lit"""
    counter = [1]

    def node_expr(k, root=False):
        if decorate == 0:
            return "ev(log, %d)" % k
        if not root and rng.random() < 0.12:
            # type of the expression left to inference (the payload type of the arena decides)
            return "ev(log, %d).into()" % k
        if rng.random() < 0.15:
            # the expression mentions a local of the caller with an everyday name (all of them are 0i64)
            return "ev(log, %d + %s)" % (k, rng.choice(CALLER_LOCALS))
        return rng.choice(NODE_SPELL).format(k=k)

    def emit_children(kids, indent):
        # returns (source of `a, b => {..}, c`, expected `1 2(3) 4`)
        parts, exps = [], []
        for ch in kids:
            k = counter[0]
            counter[0] += 1
            e = node_expr(k)
            if ch:
                s, x = emit_children(ch, indent + 1)
                parts.append("%s => { %s }" % (e, s))
                exps.append("%d(%s)" % (k, x))
            else:
                if decorate and rng.random() < 0.3:
                    parts.append("%s => {}" % e)
                else:
                    parts.append(e)
                exps.append("%d" % k)
        src = ", ".join(parts)
        if parts and ((decorate == 1 and rng.random() < 0.5) or decorate == 2):
            src += ","
        return src, " ".join(exps)

    lit = Lit()
    lit.id_form = id_form
    if id_form:
        root = rng.choice(ROOT_ID_SPELL) if decorate else "rid(log, anchor)"
    else:
        root = node_expr(0, root=True)
    s, x = emit_children(forest, 1)
    lit.nexpr = counter[0] - 1 + (0 if id_form else 1)
    if forest:
        body = "%s => { %s }" % (root, s)
    else:
        body = root if (not decorate or rng.random() < 0.5) else "%s => {}" % root
    if (decorate == 1 and rng.random() < 0.5) or decorate == 2:
        body += ","
    lit.src = body
    lit.kids_expected = x
    return lit


def literal_fn(i, lit, anchor_children, free_slots, anchor_inner):
    if lit.id_form:
        pre = " ".join(str(8001 + j) for j in range(anchor_children))
        inner = " ".join(p for p in (pre, lit.kids_expected) if p)
        expected = "8000(%s)" % inner if inner else "8000"
    else:
        expected = "0(%s)" % lit.kids_expected if lit.kids_expected else "0"
    lit.expected = expected
    return """fn lit_%d(h: &mut Harness) {
    let mut env = h.begin(%d, %d, %d, %s);
    let anchor = env.anchor;
    let _ = anchor;
    let (parent, node, last, temp, root, child, value, id, tree, arena_ref, current, prev, next, item, n, p, x, i) = (0i64, 0i64, 0i64, 0i64, 0i64, 0i64, 0i64, 0i64, 0i64, 0i64, 0i64, 0i64, 0i64, 0i64, 0i64, 0i64, 0i64, 0i64);
    let _ = (parent, node, last, temp, root, child, value, id, tree, arena_ref, current, prev, next, item, n, p, x, i);
    let result_root = {
        let log = &env.log;
        let arena = &mut env.arena;
        tree!({ log.borrow_mut().push(ARENA_MARK); &mut *arena }, %s)
    };
    h.check(%d, env, result_root, "%s", %d, %s);
}
""" % (i, i, anchor_children, free_slots, "true" if anchor_inner else "false", lit.src, i, expected, lit.nexpr,
       "true" if lit.id_form else "false")


def generate(seed, n_random, systematic_nodes, max_nodes=80, max_depth=7, max_width=18):
    """returns (rust source, list of (index, literal source, expected)) """
    rng = random.Random(seed)
    fns, index = [], []
    i = 0

    def add(forest, id_form, decorate):
        nonlocal i
        lit = emit(forest, id_form, rng, decorate)
        ak = rng.choice([0, 0, 1, 2, 3]) if id_form else rng.choice([0, 1])
        fs = rng.choice([0, 0, 1, 2, 3])
        inner = rng.random() < 0.5
        fns.append(literal_fn(i, lit, ak, fs, inner))
        index.append((i, lit.src, lit.expected, lit.id_form))
        i += 1

    # systematic part: every ordered forest below the bound x both root forms x plain / fully decorated spelling
    for n in range(0, systematic_nodes + 1):
        for forest in all_forests(n):
            for id_form in (False, True):
                if not id_form and n + 1 > systematic_nodes:
                    continue
                for decorate in (0, 2):
                    add(forest, id_form, decorate)
    n_sys = i
    for _ in range(n_random):
        budget = rng.choice([1, 2, 3, 5, 8, 13, 21, 34, 55, max_nodes])
        forest, _ = gen_forest(rng, budget, 0, max_depth, max_width)
        add(forest, rng.random() < 0.4, 1)
    body = "".join(fns)
    body += "\npub fn run_all(h: &mut Harness) {\n" + "".join("    guard(h, %d, lit_%d);\n" % (k, k) for k in range(i)) + "}\n"
    return body, index, n_sys
