#!/bin/sh
# setup_cmd: offline pre-build of the harness from files on disk only.
set -e
cd "$(dirname "$0")"
export CARGO_NET_OFFLINE=true
mkdir -p .build evidence replays
cd harness
CARGO_TARGET_DIR=../.build/main cargo build --offline --quiet --bin mon 2>/dev/null
CARGO_TARGET_DIR=../.build/main cargo build --offline --quiet --release --bin mon 2>/dev/null
echo "setup: harness built (dev + release)"
