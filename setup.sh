#!/bin/sh
# setup_cmd: offline pre-build of everything the quick checks need, from files on disk only.
# Every check rebuilds incrementally from /repo's working tree anyway; this only warms the caches.
cd "$(dirname "$0")"
export CARGO_NET_OFFLINE=true
mkdir -p .build/macrogen-src evidence replays
B="$(pwd)/.build"
(
cd harness
CARGO_TARGET_DIR=$B/main cargo build --offline --quiet --bin mon 2>/dev/null &
CARGO_TARGET_DIR=$B/deser cargo build --offline --quiet --features deser --bin mon 2>/dev/null &
CARGO_TARGET_DIR=$B/par cargo build --offline --quiet --features par_iter --bin readers 2>/dev/null &
CARGO_TARGET_DIR=$B/feat-none cargo build --offline --quiet --no-default-features --bin mon 2>/dev/null &
wait
CARGO_TARGET_DIR=$B/main cargo build --offline --quiet --release --bin mon 2>/dev/null &
CARGO_TARGET_DIR=$B/deser cargo build --offline --quiet --release --features deser --bin mon 2>/dev/null &
CARGO_TARGET_DIR=$B/allfeat cargo build --offline --quiet --release --features par_iter,deser --bin mon 2>/dev/null &
CARGO_TARGET_DIR=$B/feat-std cargo build --offline --quiet --no-default-features --features std --bin mon 2>/dev/null &
CARGO_TARGET_DIR=$B/feat-std+macros cargo build --offline --quiet --no-default-features --features std,macros --bin mon 2>/dev/null &
wait
CARGO_TARGET_DIR=$B/feat-std+macros+par_iter+deser cargo build --offline --quiet --no-default-features --features std,macros,par_iter,deser --bin mon 2>/dev/null &
( cd typecheck && CARGO_TARGET_DIR=$B/typecheck cargo +nightly build --offline --quiet --features freeze 2>/dev/null; CARGO_TARGET_DIR=$B/typecheck-nostd cargo +nightly build --offline --quiet --no-default-features --features freeze 2>/dev/null; CARGO_TARGET_DIR=$B/typecheck-par cargo +nightly build --offline --quiet --features freeze,par_iter 2>/dev/null ) &
RUSTFLAGS="-Zsanitizer=address -Cforce-frame-pointers=yes" CARGO_TARGET_DIR=$B/asan cargo +nightly build --offline --quiet --target x86_64-unknown-linux-gnu --bin mon 2>/dev/null &
CARGO_TARGET_DIR=$B/forbid cargo rustc --manifest-path /repo/indextree/Cargo.toml --lib --offline --quiet -- -F unsafe_code 2>/dev/null &
wait
)
# macro crate (native + Miri) with a tiny generated program, Miri build of the reader workload
python3 - <<'PY'
import sys, os
sys.path.insert(0, os.path.join(os.getcwd(), "lib"))
import macrogen
src, index, nsys = macrogen.generate(0, 2, 1)
open(os.path.join(".build", "macrogen-src", "warm.rs"), "w").write(src)
PY
(
cd harness/macrogen
IXV_GENERATED=$B/macrogen-src/warm.rs CARGO_TARGET_DIR=$B/macrogen-0 cargo build --offline --quiet 2>/dev/null &
IXV_GENERATED=$B/macrogen-src/warm.rs CARGO_TARGET_DIR=$B/macrogen-miri MIRIFLAGS="-Zmiri-disable-isolation" cargo +nightly miri run --offline --quiet >/dev/null 2>&1 &
cd ..
CARGO_TARGET_DIR=$B/miri MIRIFLAGS="-Zmiri-disable-isolation -Zmiri-tree-borrows -Zmiri-ignore-leaks" cargo +nightly miri run --offline --quiet --features par_iter --bin readers -- --arenas 1 --threads 2 --len 10 --max-live 4 --reps 1 >/dev/null 2>&1
CARGO_TARGET_DIR=$B/miri MIRIFLAGS="-Zmiri-disable-isolation" cargo +nightly miri run --offline --quiet --bin mon -- --prop C11 --threads 1 --small 0 --large 0 --w2n 1 --no-w3 >/dev/null 2>&1 &
wait
)
test -x .build/main/debug/mon && test -x .build/main/release/mon || { echo "setup: harness build failed"; exit 1; }
echo "setup: harness built"
